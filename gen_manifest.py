#!/usr/bin/env python3
"""Regenerates MANIFEST.json from rules/manifest_table.py (claimed checks) + DESIGN.md §5 (not applicable)."""
import json, re, sys, os
sys.path.insert(0, "rules")
from manifest_table import CHECKS, NOT_APPLICABLE_EXTRA
txt = open("DESIGN.md").read()
sec = txt.split("## 5. Not applicable")[1].split("\n## 6.")[0]
na = {}
for m in re.finditer(r"\* \*\*(C\d+)\*\* (.*?)(?=\n\* \*\*|\n\n---|\Z)", sec, re.S):
    na[m.group(1)] = " ".join(m.group(2).split())
na.update(NOT_APPLICABLE_EXTRA)
claimed = set(CHECKS)
for c in claimed:
    na.pop(c, None)
allids = [json.loads(l)["id"] for l in open("properties.jsonl")]
missing = [i for i in allids if i not in claimed and i not in na]
for i in missing:
    na[i] = "check not implemented yet in this framework (planned, see DESIGN.md §4); not claimed until its rules run"
checks = []
for pid in sorted(CHECKS):
    c = CHECKS[pid]
    checks.append({
        "property_id": pid,
        "quick_cmd": "./check %s --tier quick" % pid,
        "thorough_cmd": "./check %s --tier thorough" % pid,
        "evidence_file": "/verif/evidence/%s.json" % pid,
        "replay_cmd_template": "./check %s --replay {path}" % pid,
        "engine": c.get("engine", "mirfacts+rules"),
        "level_claimed": {"category": c.get("category", "other"), "text": c["text"], "design_ref": "DESIGN.md §4 " + pid},
        "level_note": c["note"],
        "technique": c["technique"],
    })
man = {
    "version": 1,
    "setup_cmd": "./setup.sh",
    "hooks": {"guard": "hydro_verif", "enable": "(no hooks: every check analyses /repo's unmodified source with a rustc_private driver / syn scanner / type checker)",
              "baseline_off_cmd": "cd /repo && cargo nextest run --workspace --no-fail-fast --tool-config-file pb:/w/lib/nextest.toml --profile pb --test-threads 8 --offline",
              "source_commits": [], "add_only": True},
    "engines": [
        {"name": "mirfacts", "path": "engine/mirfacts", "serves_properties": sorted(CHECKS), "kind_free_text": "rustc_private driver (nightly) dumping type-checked MIR/impl facts of /repo's crates as JSON, run as RUSTC_WORKSPACE_WRAPPER under cargo +nightly check"},
        {"name": "rules", "path": "rules", "serves_properties": sorted(CHECKS), "kind_free_text": "python3 static analyses over the facts: CFG/dominators, typestate dataflow, def-use, call graph, tables"},
    ],
    "checks": checks,
    "notes": "Technique family: static analysis only. Every claimed check decides named structural clauses (necessary conditions) of its property from /repo's current source; level_claimed.text says which part is and is not decided. Fixes to hydro are unguarded 'fix:' commits listed in known_findings.txt.",
    "not_applicable": [{"property_id": k, "reason": v} for k, v in sorted(na.items())],
}
json.dump(man, open("MANIFEST.json", "w"), indent=1)
print("claimed", len(checks), "not_applicable", len(na))
