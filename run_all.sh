#!/bin/sh
# runs every claimed check once (quick tier) on /repo's current tree; prints one line per check
cd "$(dirname "$0")"
tier=${1:-quick}
rc=0
for p in $(python3 -c "import json;print(' '.join(c['property_id'] for c in json.load(open('MANIFEST.json'))['checks']))"); do
  ./check $p --tier $tier > .work/last_$p.log 2>&1; r=$?
  tail -1 .work/last_$p.log | sed "s/^/[$r] /"
  [ $r -ne 0 ] && rc=1
done
exit $rc
