//! E2 `synscan`: syntax-tree facts for source that produces source (operator tables, quote! templates, serde attrs).
//! usage: synscan <file.rs>...   -> JSON on stdout
use std::collections::BTreeMap;

use proc_macro2::{Delimiter, TokenStream, TokenTree};
use quote::ToTokens;
use serde_json::{json, Value};
use syn::spanned::Spanned;
use syn::visit::{self, Visit};

fn ts_text(ts: &TokenStream) -> String {
    // normalised token text: single spaces between tokens
    let mut out = String::new();
    fn rec(ts: &TokenStream, out: &mut String) {
        for tt in ts.clone() {
            match tt {
                TokenTree::Group(g) => {
                    let (o, c) = match g.delimiter() {
                        Delimiter::Parenthesis => ("(", ")"),
                        Delimiter::Brace => ("{", "}"),
                        Delimiter::Bracket => ("[", "]"),
                        Delimiter::None => ("", ""),
                    };
                    out.push_str(o);
                    out.push(' ');
                    rec(&g.stream(), out);
                    out.push_str(c);
                    out.push(' ');
                }
                TokenTree::Punct(p) => {
                    out.push(p.as_char());
                    if p.spacing() == proc_macro2::Spacing::Alone {
                        out.push(' ');
                    }
                }
                other => {
                    out.push_str(&other.to_string());
                    out.push(' ');
                }
            }
        }
    }
    rec(ts, &mut out);
    out.trim().to_string()
}

struct V {
    conds: Vec<String>,
    fn_stack: Vec<String>,
    macros: Vec<Value>,
    structs: Vec<Value>,
    consts: Vec<Value>,
    fns: Vec<Value>,
    lets: Vec<Value>,
    matches: Vec<Value>,
}

impl V {
    fn cur_fn(&self) -> String {
        self.fn_stack.join("::")
    }
}

fn attrs_text(attrs: &[syn::Attribute]) -> Vec<String> {
    attrs
        .iter()
        .filter(|a| !a.path().is_ident("doc"))
        .map(|a| ts_text(&a.to_token_stream()))
        .collect()
}

impl<'ast> Visit<'ast> for V {
    fn visit_item_fn(&mut self, i: &'ast syn::ItemFn) {
        self.fn_stack.push(i.sig.ident.to_string());
        self.fns.push(json!({"name": self.cur_fn(), "line": i.span().start().line, "attrs": attrs_text(&i.attrs)}));
        visit::visit_item_fn(self, i);
        self.fn_stack.pop();
    }
    fn visit_impl_item_fn(&mut self, i: &'ast syn::ImplItemFn) {
        self.fn_stack.push(i.sig.ident.to_string());
        self.fns.push(json!({"name": self.cur_fn(), "line": i.span().start().line, "attrs": attrs_text(&i.attrs)}));
        visit::visit_impl_item_fn(self, i);
        self.fn_stack.pop();
    }
    fn visit_item_mod(&mut self, i: &'ast syn::ItemMod) {
        let is_test = i.attrs.iter().any(|a| ts_text(&a.to_token_stream()).contains("cfg ( test )"));
        if is_test {
            return;
        }
        self.fn_stack.push(format!("mod {}", i.ident));
        visit::visit_item_mod(self, i);
        self.fn_stack.pop();
    }
    fn visit_item_impl(&mut self, i: &'ast syn::ItemImpl) {
        let ty = ts_text(&i.self_ty.to_token_stream());
        self.fn_stack.push(format!("impl {}", ty));
        visit::visit_item_impl(self, i);
        self.fn_stack.pop();
    }
    fn visit_item_struct(&mut self, i: &'ast syn::ItemStruct) {
        let mut fields = vec![];
        for (idx, f) in i.fields.iter().enumerate() {
            fields.push(json!({
                "name": f.ident.as_ref().map(|x| x.to_string()).unwrap_or(idx.to_string()),
                "ty": ts_text(&f.ty.to_token_stream()),
                "attrs": attrs_text(&f.attrs),
                "line": f.span().start().line,
            }));
        }
        self.structs.push(json!({"name": i.ident.to_string(), "kind": "struct", "attrs": attrs_text(&i.attrs), "fields": fields, "line": i.span().start().line}));
        visit::visit_item_struct(self, i);
    }
    fn visit_item_enum(&mut self, i: &'ast syn::ItemEnum) {
        let mut variants = vec![];
        for v in i.variants.iter() {
            let mut fields = vec![];
            for (idx, f) in v.fields.iter().enumerate() {
                fields.push(json!({
                    "name": f.ident.as_ref().map(|x| x.to_string()).unwrap_or(idx.to_string()),
                    "ty": ts_text(&f.ty.to_token_stream()),
                    "attrs": attrs_text(&f.attrs),
                }));
            }
            variants.push(json!({"name": v.ident.to_string(), "attrs": attrs_text(&v.attrs), "fields": fields}));
        }
        self.structs.push(json!({"name": i.ident.to_string(), "kind": "enum", "attrs": attrs_text(&i.attrs), "variants": variants, "line": i.span().start().line}));
        visit::visit_item_enum(self, i);
    }
    fn visit_item_const(&mut self, i: &'ast syn::ItemConst) {
        // struct-literal constants (the operator table)
        if let syn::Expr::Struct(es) = &*i.expr {
            let mut fields = BTreeMap::new();
            for f in es.fields.iter() {
                let name = match &f.member {
                    syn::Member::Named(id) => id.to_string(),
                    syn::Member::Unnamed(ix) => ix.index.to_string(),
                };
                let mut text = ts_text(&f.expr.to_token_stream());
                if text.len() > 400 {
                    text.truncate(400);
                }
                fields.insert(name, json!({"text": text, "line": f.span().start().line}));
            }
            self.consts.push(json!({
                "name": i.ident.to_string(),
                "ty": ts_text(&i.ty.to_token_stream()),
                "struct": ts_text(&es.path.to_token_stream()),
                "fields": fields,
                "line": i.span().start().line,
            }));
        }
        self.fn_stack.push(format!("const {}", i.ident));
        visit::visit_item_const(self, i);
        self.fn_stack.pop();
    }
    fn visit_expr_if(&mut self, i: &'ast syn::ExprIf) {
        let cond = ts_text(&i.cond.to_token_stream());
        self.visit_expr(&i.cond);
        self.conds.push(format!("if {}", cond));
        self.visit_block(&i.then_branch);
        self.conds.pop();
        if let Some((_, e)) = &i.else_branch {
            self.conds.push(format!("else-of {}", cond));
            self.visit_expr(e);
            self.conds.pop();
        }
    }
    fn visit_expr_match(&mut self, i: &'ast syn::ExprMatch) {
        let scr = ts_text(&i.expr.to_token_stream());
        self.visit_expr(&i.expr);
        let mut arms = vec![];
        for arm in i.arms.iter() {
            let pat = ts_text(&arm.pat.to_token_stream());
            let guard = arm.guard.as_ref().map(|(_, g)| ts_text(&g.to_token_stream()));
            arms.push(json!({"pat": pat, "guard": guard, "line": arm.span().start().line}));
            self.conds.push(format!("match {} => {}", scr, pat));
            if let Some((_, g)) = &arm.guard {
                self.visit_expr(g);
            }
            self.visit_expr(&arm.body);
            self.conds.pop();
        }
        self.matches.push(json!({"fn": self.cur_fn(), "scrutinee": scr, "arms": arms, "line": i.span().start().line, "conds": self.conds.clone()}));
    }
    fn visit_local(&mut self, i: &'ast syn::Local) {
        if let Some(init) = &i.init {
            let pat = ts_text(&i.pat.to_token_stream());
            let mut text = ts_text(&init.expr.to_token_stream());
            if text.len() > 300 {
                text.truncate(300);
            }
            self.lets.push(json!({"fn": self.cur_fn(), "pat": pat, "init": text, "line": i.span().start().line, "conds": self.conds.clone()}));
        }
        visit::visit_local(self, i);
    }
    fn visit_macro(&mut self, m: &'ast syn::Macro) {
        let name = m.path.segments.last().map(|s| s.ident.to_string()).unwrap_or_default();
        let text = ts_text(&m.tokens);
        self.macros.push(json!({
            "fn": self.cur_fn(),
            "macro": name,
            "text": text,
            "line": m.span().start().line,
            "conds": self.conds.clone(),
        }));
        // macros whose arguments are ordinary expressions: look inside them too
        if matches!(name.as_str(), "assert" | "assert_eq" | "assert_ne" | "debug_assert" | "vec" | "format" | "println" | "Ok" | "Some") {
            if let Ok(args) = m.parse_body_with(syn::punctuated::Punctuated::<syn::Expr, syn::Token![,]>::parse_terminated) {
                for a in args.iter() {
                    self.visit_expr(a);
                }
            }
        }
    }
}

fn main() {
    let mut out = serde_json::Map::new();
    for path in std::env::args().skip(1) {
        let src = match std::fs::read_to_string(&path) {
            Ok(s) => s,
            Err(e) => {
                eprintln!("cannot read {}: {}", path, e);
                std::process::exit(2);
            }
        };
        let file = match syn::parse_file(&src) {
            Ok(f) => f,
            Err(e) => {
                eprintln!("cannot parse {}: {}", path, e);
                std::process::exit(2);
            }
        };
        let mut v = V { conds: vec![], fn_stack: vec![], macros: vec![], structs: vec![], consts: vec![], fns: vec![], lets: vec![], matches: vec![] };
        v.visit_file(&file);
        out.insert(
            path.clone(),
            json!({"macros": v.macros, "structs": v.structs, "consts": v.consts, "fns": v.fns, "lets": v.lets, "matches": v.matches}),
        );
    }
    println!("{}", Value::Object(out));
}
