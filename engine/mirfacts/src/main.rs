//! E1 `mirfacts`: rustc_private fact extractor.
//!
//! Used as RUSTC_WORKSPACE_WRAPPER: `mirfacts <rustc> <args..>`. For crates named in
//! MIRFACTS_CRATES (comma separated; empty = all workspace crates) it type-checks the crate
//! exactly as cargo asked and writes one JSON fact file to $MIRFACTS_OUT; every other
//! invocation is passed through unchanged.
#![feature(rustc_private)]
#![allow(clippy::all)]

extern crate rustc_abi;
extern crate rustc_data_structures;
extern crate rustc_driver;
extern crate rustc_hir;
extern crate rustc_interface;
extern crate rustc_middle;
extern crate rustc_session;
extern crate rustc_span;

use std::collections::BTreeMap;
use std::fmt::Write as _;

use rustc_driver::{Callbacks, Compilation};
use rustc_hir::def::DefKind;
use rustc_hir::def_id::{DefId, LocalDefId};
use rustc_interface::interface::Compiler;
use rustc_middle::mir::{
    AggregateKind, BasicBlockData, Body, BorrowKind, CastKind, Const, Operand, Place, PlaceElem,
    Rvalue, StatementKind, TerminatorKind, UnwindAction, VarDebugInfoContents,
};
use rustc_middle::ty::print::with_no_trimmed_paths;
use rustc_middle::ty::{self, GenericArgKind, GenericArgsRef, Ty, TyCtxt};
use rustc_span::Span;

// ---------------------------------------------------------------- tiny JSON writer

fn esc(s: &str, out: &mut String) {
    out.push('"');
    for c in s.chars() {
        match c {
            '"' => out.push_str("\\\""),
            '\\' => out.push_str("\\\\"),
            '\n' => out.push_str("\\n"),
            '\r' => out.push_str("\\r"),
            '\t' => out.push_str("\\t"),
            c if (c as u32) < 0x20 => {
                let _ = write!(out, "\\u{:04x}", c as u32);
            }
            c => out.push(c),
        }
    }
    out.push('"');
}

#[derive(Clone)]
enum J {
    Null,
    B(bool),
    I(i128),
    S(String),
    A(Vec<J>),
    O(Vec<(&'static str, J)>),
}
impl J {
    fn s(x: impl Into<String>) -> J {
        J::S(x.into())
    }
    fn write(&self, out: &mut String) {
        match self {
            J::Null => out.push_str("null"),
            J::B(b) => out.push_str(if *b { "true" } else { "false" }),
            J::I(i) => {
                let _ = write!(out, "{}", i);
            }
            J::S(s) => esc(s, out),
            J::A(v) => {
                out.push('[');
                for (i, x) in v.iter().enumerate() {
                    if i > 0 {
                        out.push(',');
                    }
                    x.write(out);
                }
                out.push(']');
            }
            J::O(v) => {
                out.push('{');
                let mut first = true;
                for (k, x) in v.iter() {
                    if let J::Null = x {
                        continue;
                    }
                    if !first {
                        out.push(',');
                    }
                    first = false;
                    esc(k, out);
                    out.push(':');
                    x.write(out);
                }
                out.push('}');
            }
        }
    }
}
fn opt(x: Option<J>) -> J {
    x.unwrap_or(J::Null)
}

// ---------------------------------------------------------------- printing helpers

struct Cx<'tcx> {
    tcx: TyCtxt<'tcx>,
}

impl<'tcx> Cx<'tcx> {
    /// canonical def path: crate name + verbose path (stable across re-exports)
    fn dp(&self, did: DefId) -> String {
        let tcx = self.tcx;
        format!("{}{}", tcx.crate_name(did.krate), tcx.def_path(did).to_string_no_crate_verbose())
    }

    fn args_s(&self, args: GenericArgsRef<'tcx>) -> String {
        let mut parts = vec![];
        for a in args.iter() {
            match a.kind() {
                GenericArgKind::Type(t) => parts.push(self.ty_s(t)),
                GenericArgKind::Const(c) => parts.push(with_no_trimmed_paths!(format!("{}", c))),
                GenericArgKind::Lifetime(_) => {}
            }
        }
        if parts.is_empty() { String::new() } else { format!("<{}>", parts.join(", ")) }
    }

    fn args_list(&self, args: GenericArgsRef<'tcx>) -> J {
        let mut parts = vec![];
        for a in args.iter() {
            match a.kind() {
                GenericArgKind::Type(t) => parts.push(J::s(self.ty_s(t))),
                GenericArgKind::Const(c) => {
                    parts.push(J::s(with_no_trimmed_paths!(format!("{}", c))))
                }
                GenericArgKind::Lifetime(_) => {}
            }
        }
        J::A(parts)
    }

    fn ty_s(&self, ty: Ty<'tcx>) -> String {
        self.ty_sd(ty, 0)
    }

    fn ty_sd(&self, ty: Ty<'tcx>, depth: usize) -> String {
        if depth > 12 {
            return "…".to_string();
        }
        let d = depth + 1;
        match ty.kind() {
            ty::Adt(def, args) => format!("{}{}", self.dp(def.did()), self.args_sd(args, d)),
            ty::Ref(_, t, m) => {
                format!("&{}{}", if m.is_mut() { "mut " } else { "" }, self.ty_sd(*t, d))
            }
            ty::RawPtr(t, m) => {
                format!("*{} {}", if m.is_mut() { "mut" } else { "const" }, self.ty_sd(*t, d))
            }
            ty::Tuple(ts) => {
                let v: Vec<String> = ts.iter().map(|t| self.ty_sd(t, d)).collect();
                format!("({})", v.join(", "))
            }
            ty::Slice(t) => format!("[{}]", self.ty_sd(*t, d)),
            ty::Array(t, n) => {
                format!("[{}; {}]", self.ty_sd(*t, d), with_no_trimmed_paths!(format!("{}", n)))
            }
            ty::FnDef(did, args) => {
                let did: DefId = (*did).into();
                format!("fn#{}{}", self.dp(did), self.args_sd(args, d))
            }
            ty::Closure(did, _) => {
                let did: DefId = (*did).into();
                format!("closure#{}", self.dp(did))
            }
            ty::CoroutineClosure(did, _) => {
                let did: DefId = (*did).into();
                format!("coroutine_closure#{}", self.dp(did))
            }
            ty::Coroutine(did, _) => {
                let did: DefId = (*did).into();
                format!("coroutine#{}", self.dp(did))
            }
            ty::Alias(..) => match ty.kind() {
                ty::Alias(ty::AliasTy { kind: ty::AliasTyKind::Opaque { def_id }, .. }) => {
                    let did: DefId = (*def_id).into();
                    format!("impl#{}", self.dp(did))
                }
                _ => with_no_trimmed_paths!(format!("{}", ty)),
            },
            _ => with_no_trimmed_paths!(format!("{}", ty)),
        }
    }

    fn args_sd(&self, args: GenericArgsRef<'tcx>, d: usize) -> String {
        let mut parts = vec![];
        for a in args.iter() {
            match a.kind() {
                GenericArgKind::Type(t) => parts.push(self.ty_sd(t, d)),
                GenericArgKind::Const(c) => parts.push(with_no_trimmed_paths!(format!("{}", c))),
                GenericArgKind::Lifetime(_) => {}
            }
        }
        if parts.is_empty() { String::new() } else { format!("<{}>", parts.join(", ")) }
    }

    fn span_s(&self, sp: Span) -> (String, i128) {
        let sm = self.tcx.sess.source_map();
        // use the outermost call site so macro-generated code points at user source
        let sp = sp.source_callsite();
        let loc = sm.lookup_char_pos(sp.lo());
        let f = match &loc.file.name {
            rustc_span::FileName::Real(r) => match r.local_path() {
                Some(p) => p.to_string_lossy().to_string(),
                None => format!("{:?}", loc.file.name),
            },
            other => format!("{:?}", other),
        };
        (f, loc.line as i128)
    }

    fn line(&self, sp: Span) -> i128 {
        self.span_s(sp).1
    }

    /// name of the outermost macro this span was expanded from (if any)
    fn macro_of(&self, sp: Span) -> Option<String> {
        if !sp.from_expansion() {
            return None;
        }
        let mut names = vec![];
        let mut cur = sp;
        let mut guard = 0;
        while cur.from_expansion() && guard < 16 {
            let data = cur.ctxt().outer_expn_data();
            names.push(data.kind.descr());
            cur = data.call_site;
            guard += 1;
        }
        Some(names.join("<"))
    }
}

// ---------------------------------------------------------------- MIR dumping

struct BodyDump<'a, 'tcx> {
    cx: &'a Cx<'tcx>,
    body: &'a Body<'tcx>,
    owner: LocalDefId,
    /// resolve trait calls to instances (not inside the mir_built hook: revealing opaque
    /// types there could cycle back into the body being built)
    resolve: bool,
}

impl<'a, 'tcx> BodyDump<'a, 'tcx> {
    fn place(&self, p: &Place<'tcx>) -> J {
        let tcx = self.cx.tcx;
        let mut projs = vec![];
        let mut pty = rustc_middle::mir::PlaceTy::from_ty(self.body.local_decls[p.local].ty);
        for elem in p.projection.iter() {
            let s = match elem {
                PlaceElem::Deref => "*".to_string(),
                PlaceElem::Field(f, _) => {
                    let mut name = String::new();
                    if let ty::Adt(def, _) = pty.ty.kind() {
                        let vidx = pty.variant_index.unwrap_or(rustc_abi::FIRST_VARIANT);
                        if def.is_enum() || def.is_struct() || def.is_union() {
                            if let Some(v) = def.variants().get(vidx) {
                                if let Some(fd) = v.fields.get(f) {
                                    name = fd.name.to_string();
                                }
                            }
                        }
                    }
                    if name.is_empty() {
                        format!(".{}", f.index())
                    } else {
                        format!(".{}:{}", f.index(), name)
                    }
                }
                PlaceElem::Downcast(sym, vi) => match sym {
                    Some(s) => format!("@{}", s),
                    None => format!("@#{}", vi.index()),
                },
                PlaceElem::Index(l) => format!("[_{}]", l.index()),
                PlaceElem::ConstantIndex { offset, from_end, .. } => {
                    format!("[{}{}]", if from_end { "-" } else { "" }, offset)
                }
                PlaceElem::Subslice { .. } => "[..]".to_string(),
                PlaceElem::OpaqueCast(_) => "opaque".to_string(),
                PlaceElem::UnwrapUnsafeBinder(_) => "unbind".to_string(),
            };
            projs.push(J::S(s));
            pty = pty.projection_ty(tcx, elem);
        }
        if projs.is_empty() {
            J::I(p.local.index() as i128)
        } else {
            let mut v = vec![J::I(p.local.index() as i128)];
            v.extend(projs);
            J::A(v)
        }
    }

    fn callee(&self, did: DefId, args: GenericArgsRef<'tcx>) -> J {
        let tcx = self.cx.tcx;
        let mut o: Vec<(&'static str, J)> = vec![];
        o.push(("def", J::s(self.cx.dp(did))));
        o.push(("name", J::s(tcx.item_name(did).to_string())));
        o.push(("args", self.cx.args_list(args)));
        if matches!(tcx.def_kind(did), DefKind::AssocFn) {
            if let Some(tr) = tcx.trait_of_assoc(did) {
                o.push(("trait", J::s(self.cx.dp(tr))));
                if args.len() > 0 {
                    if let Some(t) = args.get(0).and_then(|a| a.as_type()) {
                        o.push(("self", J::s(self.cx.ty_s(t))));
                    }
                }
            } else if let Some(imp) = tcx.impl_of_assoc(did) {
                let t = tcx.type_of(imp).instantiate_identity().skip_norm_wip();
                o.push(("impl_self", J::s(self.cx.ty_s(t))));
            }
        }
        // resolution to the concrete instance
        if self.resolve && matches!(tcx.def_kind(did), DefKind::Fn | DefKind::AssocFn) {
            let env = ty::TypingEnv::post_analysis(tcx, self.owner);
            let eargs = tcx.erase_and_anonymize_regions(args);
            let res = std::panic::catch_unwind(std::panic::AssertUnwindSafe(|| {
                ty::Instance::try_resolve(tcx, env, did, eargs)
            }));
            if let Ok(Ok(Some(inst))) = res {
                let rd = inst.def_id();
                if rd != did {
                    o.push(("res", J::s(self.cx.dp(rd))));
                }
            }
        }
        J::O(o)
    }

    fn constant(&self, c: &Const<'tcx>) -> J {
        let ty = c.ty();
        match ty.kind() {
            ty::FnDef(did, args) => {
                let did: DefId = (*did).into();
                J::O(vec![("fn", self.callee(did, args))])
            }
            _ => {
                let s = with_no_trimmed_paths!(format!("{}", c));
                let mut s2 = s;
                if s2.len() > 200 {
                    s2.truncate(200);
                }
                J::O(vec![("c", J::S(s2)), ("ty", J::s(self.cx.ty_s(ty)))])
            }
        }
    }

    fn operand(&self, op: &Operand<'tcx>) -> J {
        match op {
            Operand::Copy(p) => J::O(vec![("cp", self.place(p))]),
            Operand::Move(p) => J::O(vec![("mv", self.place(p))]),
            Operand::Constant(c) => self.constant(&c.const_),
            _ => J::O(vec![("c", J::s("runtime_checks"))]),
        }
    }

    fn enum_variants(&self, p: &Place<'tcx>) -> J {
        let tcx = self.cx.tcx;
        let t = p.ty(&self.body.local_decls, tcx).ty;
        if let ty::Adt(def, _) = t.kind() {
            if def.is_enum() {
                let mut v = vec![];
                for (vi, dis) in def.discriminants(tcx) {
                    let name = def.variant(vi).name.to_string();
                    v.push(J::A(vec![J::I(dis.val as i128), J::S(name)]));
                }
                return J::A(v);
            }
        }
        J::Null
    }

    fn rvalue(&self, rv: &Rvalue<'tcx>) -> J {
        let tcx = self.cx.tcx;
        match rv {
            Rvalue::Use(op, ..) => J::O(vec![("k", J::s("use")), ("ops", J::A(vec![self.operand(op)]))]),
            Rvalue::Repeat(op, _) => {
                J::O(vec![("k", J::s("repeat")), ("ops", J::A(vec![self.operand(op)]))])
            }
            Rvalue::Ref(_, bk, p) => {
                let m = match bk {
                    BorrowKind::Shared => "ref",
                    BorrowKind::Fake(_) => "fakeref",
                    BorrowKind::Mut { .. } => "refmut",
                };
                J::O(vec![("k", J::s(m)), ("p", self.place(p))])
            }
            Rvalue::RawPtr(_, p) => J::O(vec![("k", J::s("rawptr")), ("p", self.place(p))]),
            Rvalue::ThreadLocalRef(did) => {
                J::O(vec![("k", J::s("tls")), ("def", J::s(self.cx.dp(*did)))])
            }
            Rvalue::Cast(kind, op, ty) => {
                let ks = match kind {
                    CastKind::PointerExposeProvenance => "ptr_expose".to_string(),
                    CastKind::PointerWithExposedProvenance => "ptr_from_exposed".to_string(),
                    CastKind::PointerCoercion(pc, _) => format!("coerce:{:?}", pc),
                    other => format!("{:?}", other),
                };
                J::O(vec![
                    ("k", J::s("cast")),
                    ("cast", J::S(ks)),
                    ("ops", J::A(vec![self.operand(op)])),
                    ("ty", J::s(self.cx.ty_s(*ty))),
                ])
            }
            Rvalue::BinaryOp(op, b) => J::O(vec![
                ("k", J::s("bin")),
                ("op", J::s(format!("{:?}", op))),
                ("ops", J::A(vec![self.operand(&b.0), self.operand(&b.1)])),
            ]),
            Rvalue::UnaryOp(op, a) => J::O(vec![
                ("k", J::s("un")),
                ("op", J::s(format!("{:?}", op))),
                ("ops", J::A(vec![self.operand(a)])),
            ]),
            Rvalue::Discriminant(p) => J::O(vec![
                ("k", J::s("discr")),
                ("p", self.place(p)),
                ("variants", self.enum_variants(p)),
            ]),
            Rvalue::Aggregate(kind, ops) => {
                let opsj: Vec<J> = ops.iter().map(|o| self.operand(o)).collect();
                let (ak, extra): (String, J) = match &**kind {
                    AggregateKind::Array(_) => ("array".into(), J::Null),
                    AggregateKind::Tuple => ("tuple".into(), J::Null),
                    AggregateKind::Adt(did, vi, _args, _, _) => {
                        let adt = tcx.adt_def(*did);
                        let vname = adt.variant(*vi).name.to_string();
                        let fields: Vec<J> = adt
                            .variant(*vi)
                            .fields
                            .iter()
                            .map(|f| J::s(f.name.to_string()))
                            .collect();
                        (
                            "adt".into(),
                            J::O(vec![
                                ("def", J::s(self.cx.dp(*did))),
                                ("variant", J::S(vname)),
                                ("fields", J::A(fields)),
                            ]),
                        )
                    }
                    AggregateKind::Closure(did, _) => {
                        ("closure".into(), J::O(vec![("def", J::s(self.cx.dp(*did)))]))
                    }
                    AggregateKind::Coroutine(did, _) => {
                        ("coroutine".into(), J::O(vec![("def", J::s(self.cx.dp(*did)))]))
                    }
                    AggregateKind::CoroutineClosure(did, _) => {
                        ("coroutine_closure".into(), J::O(vec![("def", J::s(self.cx.dp(*did)))]))
                    }
                    AggregateKind::RawPtr(..) => ("rawptr".into(), J::Null),
                };
                J::O(vec![("k", J::s("agg")), ("agg", J::S(ak)), ("adt", extra), ("ops", J::A(opsj))])
            }
            Rvalue::CopyForDeref(p) => {
                J::O(vec![("k", J::s("use")), ("ops", J::A(vec![J::O(vec![("cp", self.place(p))])]))])
            }
            Rvalue::WrapUnsafeBinder(op, _) => {
                J::O(vec![("k", J::s("use")), ("ops", J::A(vec![self.operand(op)]))])
            }
        }
    }

    fn unwind(&self, u: &UnwindAction) -> J {
        match u {
            UnwindAction::Cleanup(bb) => J::I(bb.index() as i128),
            _ => J::Null,
        }
    }

    fn block(&self, bb: &BasicBlockData<'tcx>) -> J {
        let mut stmts = vec![];
        for st in bb.statements.iter() {
            match &st.kind {
                StatementKind::Assign(b) => {
                    let (p, rv) = &**b;
                    stmts.push(J::O(vec![
                        ("lhs", self.place(p)),
                        ("rv", self.rvalue(rv)),
                        ("ln", J::I(self.cx.line(st.source_info.span))),
                    ]));
                }
                StatementKind::SetDiscriminant { place, variant_index } => {
                    let t = place.ty(&self.body.local_decls, self.cx.tcx).ty;
                    let name = match t.kind() {
                        ty::Adt(def, _) => def.variant(*variant_index).name.to_string(),
                        _ => format!("#{}", variant_index.index()),
                    };
                    stmts.push(J::O(vec![
                        ("setdiscr", self.place(place)),
                        ("variant", J::S(name)),
                        ("ln", J::I(self.cx.line(st.source_info.span))),
                    ]));
                }
                StatementKind::StorageDead(l) => {
                    stmts.push(J::O(vec![("dead", J::I(l.index() as i128))]));
                }
                _ => {}
            }
        }
        let term = bb.terminator();
        let sp = term.source_info.span;
        let mut t: Vec<(&'static str, J)> = vec![];
        match &term.kind {
            TerminatorKind::Goto { target } => {
                t.push(("k", J::s("goto")));
                t.push(("t", J::I(target.index() as i128)));
            }
            TerminatorKind::SwitchInt { discr, targets } => {
                t.push(("k", J::s("switch")));
                t.push(("d", self.operand(discr)));
                let mut v = vec![];
                for (val, bb) in targets.iter() {
                    v.push(J::A(vec![J::I(val as i128), J::I(bb.index() as i128)]));
                }
                t.push(("ts", J::A(v)));
                t.push(("o", J::I(targets.otherwise().index() as i128)));
                let dty = discr.ty(&self.body.local_decls, self.cx.tcx);
                t.push(("dty", J::s(self.cx.ty_s(dty))));
            }
            TerminatorKind::UnwindResume => t.push(("k", J::s("resume"))),
            TerminatorKind::UnwindTerminate(_) => t.push(("k", J::s("abort"))),
            TerminatorKind::Return => t.push(("k", J::s("return"))),
            TerminatorKind::Unreachable => t.push(("k", J::s("unreachable"))),
            TerminatorKind::Drop { place, target, unwind, .. } => {
                t.push(("k", J::s("drop")));
                t.push(("p", self.place(place)));
                t.push(("t", J::I(target.index() as i128)));
                t.push(("u", self.unwind(unwind)));
            }
            TerminatorKind::Call { func, args, destination, target, unwind, fn_span, .. } => {
                t.push(("k", J::s("call")));
                match func {
                    Operand::Constant(c) => match c.const_.ty().kind() {
                        ty::FnDef(did, gargs) => {
                            let did: DefId = (*did).into();
                            t.push(("f", self.callee(did, gargs)));
                        }
                        _ => t.push(("fop", self.operand(func))),
                    },
                    _ => {
                        t.push(("fop", self.operand(func)));
                        let fty = func.ty(&self.body.local_decls, self.cx.tcx);
                        t.push(("fty", J::s(self.cx.ty_s(fty))));
                    }
                }
                t.push(("a", J::A(args.iter().map(|a| self.operand(&a.node)).collect())));
                t.push(("dst", self.place(destination)));
                t.push(("t", opt(target.map(|b| J::I(b.index() as i128)))));
                t.push(("u", self.unwind(unwind)));
                t.push(("cl", J::I(self.cx.line(*fn_span))));
            }
            TerminatorKind::TailCall { func, args, .. } => {
                t.push(("k", J::s("tailcall")));
                t.push(("fop", self.operand(func)));
                t.push(("a", J::A(args.iter().map(|a| self.operand(&a.node)).collect())));
            }
            TerminatorKind::Assert { cond, expected, target, unwind, msg } => {
                t.push(("k", J::s("assert")));
                t.push(("d", self.operand(cond)));
                t.push(("exp", J::B(*expected)));
                t.push(("t", J::I(target.index() as i128)));
                t.push(("u", self.unwind(unwind)));
                let m = format!("{:?}", msg);
                t.push(("msg", J::S(m.chars().take(40).collect())));
            }
            TerminatorKind::Yield { value, resume, resume_arg, drop } => {
                t.push(("k", J::s("yield")));
                t.push(("v", self.operand(value)));
                t.push(("t", J::I(resume.index() as i128)));
                t.push(("dst", self.place(resume_arg)));
                t.push(("dropbb", opt(drop.map(|b| J::I(b.index() as i128)))));
            }
            TerminatorKind::CoroutineDrop => t.push(("k", J::s("coroutine_drop"))),
            TerminatorKind::FalseEdge { real_target, imaginary_target } => {
                t.push(("k", J::s("falseedge")));
                t.push(("t", J::I(real_target.index() as i128)));
                t.push(("imag", J::I(imaginary_target.index() as i128)));
            }
            TerminatorKind::FalseUnwind { real_target, unwind } => {
                t.push(("k", J::s("goto")));
                t.push(("t", J::I(real_target.index() as i128)));
                t.push(("u", self.unwind(unwind)));
            }
            TerminatorKind::InlineAsm { targets, .. } => {
                t.push(("k", J::s("asm")));
                t.push(("ts", J::A(targets.iter().map(|b| J::I(b.index() as i128)).collect())));
            }
        }
        t.push(("ln", J::I(self.cx.line(sp))));
        if let Some(m) = self.cx.macro_of(sp) {
            t.push(("mx", J::S(m)));
        }
        J::O(vec![
            ("c", if bb.is_cleanup { J::B(true) } else { J::Null }),
            ("s", J::A(stmts)),
            ("t", J::O(t)),
        ])
    }

    fn dump(&self, stage: &'static str) -> J {
        self.dump_as(stage, None)
    }

    /// `promoted`: index of the promoted constant body being dumped (its def is `<owner>::promoted[i]`)
    fn dump_as(&self, stage: &'static str, promoted: Option<usize>) -> J {
        let tcx = self.cx.tcx;
        let did = self.owner.to_def_id();
        let body = self.body;
        let mut o: Vec<(&'static str, J)> = vec![];
        match promoted {
            Some(i) => {
                o.push(("def", J::s(format!("{}::promoted[{}]", self.cx.dp(did), i))));
                o.push(("kind", J::s("Promoted")));
                o.push(("promoted", J::I(i as i128)));
            }
            None => {
                o.push(("def", J::s(self.cx.dp(did))));
                o.push(("kind", J::s(format!("{:?}", tcx.def_kind(did)))));
            }
        }
        o.push(("stage", J::s(stage)));
        let (f, l) = self.cx.span_s(body.span);
        o.push(("file", J::S(f)));
        o.push(("line", J::I(l)));
        o.push(("argc", J::I(body.arg_count as i128)));
        if tcx.is_coroutine(did) {
            o.push(("coroutine", J::B(true)));
        }
        if matches!(tcx.def_kind(did), DefKind::Closure | DefKind::InlineConst) {
            let parent = tcx.local_parent(self.owner);
            o.push(("parent", J::s(self.cx.dp(parent.to_def_id()))));
        }
        // enclosing fn item (walk up through closures)
        let root = tcx.typeck_root_def_id(did);
        o.push(("root", J::s(self.cx.dp(root))));
        if let Some(name) = tcx.opt_item_name(root) {
            o.push(("name", J::s(name.to_string())));
        }
        if let Some(imp) = tcx.impl_of_assoc(root) {
            o.push(("impl", J::s(self.cx.dp(imp))));
        }
        if tcx.is_diagnostic_item(rustc_span::sym::Default, root) {
            // nothing; placeholder to keep sym import used
        }
        let mut locals = vec![];
        for ld in body.local_decls.iter() {
            locals.push(J::s(self.cx.ty_s(ld.ty)));
        }
        o.push(("locals", J::A(locals)));
        let mut dbg = vec![];
        for v in body.var_debug_info.iter() {
            if let VarDebugInfoContents::Place(p) = &v.value {
                dbg.push(J::A(vec![
                    J::s(v.name.to_string()),
                    self.place(p),
                    opt(v.argument_index.map(|i| J::I(i as i128))),
                ]));
            }
        }
        o.push(("vars", J::A(dbg)));
        let mut blocks = vec![];
        for bb in body.basic_blocks.iter() {
            blocks.push(self.block(bb));
        }
        o.push(("bbs", J::A(blocks)));
        J::O(o)
    }
}

// ---------------------------------------------------------------- item facts

fn clause_j<'tcx>(cx: &Cx<'tcx>, c: ty::Clause<'tcx>) -> Option<J> {
    match c.kind().skip_binder() {
        ty::ClauseKind::Trait(tp) => {
            let tr = tp.trait_ref;
            Some(J::O(vec![
                ("k", J::s("trait")),
                ("self", J::s(cx.ty_s(tr.self_ty()))),
                ("trait", J::s(cx.dp(tr.def_id))),
                ("args", cx.args_list(tr.args)),
            ]))
        }
        ty::ClauseKind::Projection(pp) => Some(J::O(vec![
            ("k", J::s("proj")),
            ("s", J::S(with_no_trimmed_paths!(format!("{}", pp)))),
        ])),
        _ => None,
    }
}

fn preds_j<'tcx>(cx: &Cx<'tcx>, did: DefId) -> J {
    let tcx = cx.tcx;
    let preds = tcx.predicates_of(did);
    let mut v = vec![];
    for (c, _) in preds.predicates.iter() {
        if let Some(j) = clause_j(cx, *c) {
            v.push(j);
        }
    }
    J::A(v)
}

fn gens_empty<'tcx>(tcx: TyCtxt<'tcx>, did: DefId) -> bool {
    tcx.generics_of(did).own_params.is_empty()
}

fn items_j<'tcx>(cx: &Cx<'tcx>) -> (J, J, J, J) {
    let tcx = cx.tcx;
    let mut impls = vec![];
    let mut adts = vec![];
    let mut fns = vec![];
    let mut traits = vec![];
    for ldid in tcx.hir_crate_items(()).definitions() {
        let did = ldid.to_def_id();
        match tcx.def_kind(did) {
            DefKind::Impl { of_trait } => {
                let self_ty = tcx.type_of(did).instantiate_identity().skip_norm_wip();
                let mut o: Vec<(&'static str, J)> = vec![];
                o.push(("def", J::s(cx.dp(did))));
                o.push(("self", J::s(cx.ty_s(self_ty))));
                if let ty::Adt(ad, _) = self_ty.kind() {
                    o.push(("self_adt", J::s(cx.dp(ad.did()))));
                }
                if of_trait {
                    let tr = tcx.impl_trait_ref(did).instantiate_identity().skip_norm_wip();
                    o.push(("trait", J::s(cx.dp(tr.def_id))));
                    o.push(("trait_args", cx.args_list(tr.args)));
                    o.push((
                        "negative",
                        if matches!(tcx.impl_polarity(did), ty::ImplPolarity::Negative) {
                            J::B(true)
                        } else {
                            J::Null
                        },
                    ));
                }
                o.push(("preds", preds_j(cx, did)));
                let (f, l) = cx.span_s(tcx.def_span(did));
                o.push(("file", J::S(f)));
                o.push(("line", J::I(l)));
                o.push(("mx", opt(cx.macro_of(tcx.def_span(did)).map(J::S))));
                let mut assoc = vec![];
                for it in tcx.associated_items(did).in_definition_order() {
                    let Some(itname) = it.opt_name() else { continue };
                    let mut a: Vec<(&'static str, J)> = vec![];
                    a.push(("name", J::s(itname.to_string())));
                    a.push(("def", J::s(cx.dp(it.def_id))));
                    if it.is_type() {
                        let t = tcx.type_of(it.def_id).instantiate_identity().skip_norm_wip();
                        a.push(("ty", J::s(cx.ty_s(t))));
                        let g = tcx.generics_of(it.def_id);
                        let gn: Vec<J> = g
                            .own_params
                            .iter()
                            .filter(|p| !matches!(p.kind, ty::GenericParamDefKind::Lifetime))
                            .map(|p| J::s(p.name.to_string()))
                            .collect();
                        a.push(("generics", J::A(gn)));
                    } else if it.is_fn() {
                        a.push(("fn", J::B(true)));
                    } else if gens_empty(tcx, did) {
                        // associated const of a non-generic impl: record its evaluated value when it is a plain scalar
                        if let Ok(v) = tcx.const_eval_poly(it.def_id) {
                            if let Some(si) = v.try_to_scalar_int() {
                                a.push(("const", J::s(format!("{:?}", si))));
                            }
                        }
                    }
                    assoc.push(J::O(a));
                }
                o.push(("items", J::A(assoc)));
                let gens = tcx.generics_of(did);
                let gnames: Vec<J> =
                    gens.own_params.iter().map(|p| J::s(p.name.to_string())).collect();
                o.push(("generics", J::A(gnames)));
                impls.push(J::O(o));
            }
            DefKind::Struct | DefKind::Enum | DefKind::Union => {
                let adt = tcx.adt_def(did);
                let mut vs = vec![];
                for v in adt.variants().iter() {
                    let mut fs = vec![];
                    for f in v.fields.iter() {
                        let t = tcx.type_of(f.did).instantiate_identity().skip_norm_wip();
                        fs.push(J::O(vec![
                            ("name", J::s(f.name.to_string())),
                            ("ty", J::s(cx.ty_s(t))),
                            ("pub", J::B(f.vis.is_public())),
                        ]));
                    }
                    vs.push(J::O(vec![("name", J::s(v.name.to_string())), ("fields", J::A(fs))]));
                }
                let (f, l) = cx.span_s(tcx.def_span(did));
                let gens = tcx.generics_of(did);
                let gnames: Vec<J> =
                    gens.own_params.iter().map(|p| J::s(p.name.to_string())).collect();
                adts.push(J::O(vec![
                    ("generics", J::A(gnames)),
                    ("mx", opt(cx.macro_of(tcx.def_span(did)).map(J::S))),
                    ("def", J::s(cx.dp(did))),
                    ("kind", J::s(format!("{:?}", tcx.def_kind(did)))),
                    ("variants", J::A(vs)),
                    ("pub", J::B(tcx.visibility(did).is_public())),
                    ("file", J::S(f)),
                    ("line", J::I(l)),
                ]));
            }
            DefKind::Fn | DefKind::AssocFn => {
                let sig = tcx.fn_sig(did).instantiate_identity().skip_norm_wip().skip_binder();
                let ins: Vec<J> = sig.inputs().iter().map(|t| J::s(cx.ty_s(*t))).collect();
                let vis = tcx.visibility(did);
                let (f, l) = cx.span_s(tcx.def_span(did));
                let mut o: Vec<(&'static str, J)> = vec![];
                o.push(("def", J::s(cx.dp(did))));
                o.push(("name", J::s(tcx.item_name(did).to_string())));
                o.push(("inputs", J::A(ins)));
                o.push(("output", J::s(cx.ty_s(sig.output()))));
                o.push(("pub", J::B(vis.is_public())));
                o.push((
                    "vis",
                    J::s(match vis {
                        ty::Visibility::Public => "pub".to_string(),
                        ty::Visibility::Restricted(m) => format!("in:{}", cx.dp(m)),
                    }),
                ));
                o.push(("preds", preds_j(cx, did)));
                if let Some(imp) = tcx.impl_of_assoc(did) {
                    o.push(("impl", J::s(cx.dp(imp))));
                }
                if let Some(tr) = tcx.trait_of_assoc(did) {
                    o.push(("in_trait", J::s(cx.dp(tr))));
                }
                let gens = tcx.generics_of(did);
                let gnames: Vec<J> =
                    gens.own_params.iter().map(|p| J::s(p.name.to_string())).collect();
                o.push(("generics", J::A(gnames)));
                o.push(("mx", opt(cx.macro_of(tcx.def_span(did)).map(J::S))));
                o.push(("file", J::S(f)));
                o.push(("line", J::I(l)));
                fns.push(J::O(o));
            }
            DefKind::Trait => {
                let mut assoc = vec![];
                for it in tcx.associated_items(did).in_definition_order() {
                    let Some(itname) = it.opt_name() else { continue };
                    assoc.push(J::O(vec![
                        ("name", J::s(itname.to_string())),
                        ("def", J::s(cx.dp(it.def_id))),
                        ("has_default", J::B(it.defaultness(tcx).has_value())),
                        ("is_type", J::B(it.is_type())),
                    ]));
                }
                traits.push(J::O(vec![
                    ("def", J::s(cx.dp(did))),
                    ("items", J::A(assoc)),
                    ("preds", preds_j(cx, did)),
                ]));
            }
            _ => {}
        }
    }
    (J::A(impls), J::A(adts), J::A(fns), J::A(traits))
}

// ---------------------------------------------------------------- driver

struct Extract {
    out_dir: String,
    tag: String,
}

type MirBuiltFn = for<'tcx> fn(
    TyCtxt<'tcx>,
    LocalDefId,
) -> &'tcx rustc_data_structures::steal::Steal<Body<'tcx>>;
static ORIG_MIR_BUILT: std::sync::OnceLock<MirBuiltFn> = std::sync::OnceLock::new();
static COROUTINE_BODIES: std::sync::Mutex<Vec<String>> = std::sync::Mutex::new(Vec::new());

fn mir_built_hook<'tcx>(
    tcx: TyCtxt<'tcx>,
    owner: LocalDefId,
) -> &'tcx rustc_data_structures::steal::Steal<Body<'tcx>> {
    let orig = ORIG_MIR_BUILT.get().expect("orig provider");
    let steal = orig(tcx, owner);
    let did = owner.to_def_id();
    if matches!(tcx.def_kind(did), DefKind::Closure) && tcx.is_coroutine(did) {
        let cx = Cx { tcx };
        let body = steal.borrow();
        let bd = BodyDump { cx: &cx, body: &body, owner, resolve: false };
        let mut s = String::new();
        bd.dump("built").write(&mut s);
        COROUTINE_BODIES.lock().unwrap().push(s);
    }
    steal
}

impl Callbacks for Extract {
    fn config(&mut self, config: &mut rustc_interface::interface::Config) {
        // Coroutine bodies (async fns/blocks/closures): the source-shaped CFG only exists in
        // `mir_built`, which is stolen as soon as the body is borrow-checked (and that can be
        // triggered from type-checking *another* body through opaque-type inference). So the
        // provider itself is wrapped and dumps every coroutine body at creation.
        config.override_queries = Some(|_sess, providers| {
            let _ = ORIG_MIR_BUILT.set(providers.queries.mir_built);
            providers.queries.mir_built = mir_built_hook;
        });
    }

    fn after_analysis<'tcx>(&mut self, _c: &Compiler, tcx: TyCtxt<'tcx>) -> Compilation {
        let cx = Cx { tcx };
        let mut out = String::with_capacity(1 << 22);
        out.push_str("{\"crate\":");
        esc(&tcx.crate_name(rustc_hir::def_id::LOCAL_CRATE).to_string(), &mut out);
        out.push_str(",\"tag\":");
        esc(&self.tag, &mut out);
        out.push_str(",\"bodies\":[");
        let mut first = true;
        let dumped: Vec<String> = std::mem::take(&mut *COROUTINE_BODIES.lock().unwrap());
        for s in dumped.into_iter() {
            if !first {
                out.push(',');
            }
            first = false;
            out.push_str(&s);
        }
        let mut skipped: BTreeMap<String, i128> = BTreeMap::new();
        for owner in tcx.hir_body_owners() {
            let did = owner.to_def_id();
            let kind = tcx.def_kind(did);
            match kind {
                DefKind::Fn | DefKind::AssocFn => {}
                DefKind::Closure => {
                    if tcx.is_coroutine(did) {
                        continue;
                    }
                }
                other => {
                    *skipped.entry(format!("{:?}", other)).or_default() += 1;
                    continue;
                }
            }
            if !tcx.is_mir_available(did) {
                *skipped.entry("no_mir".into()).or_default() += 1;
                continue;
            }
            let body = tcx.optimized_mir(did);
            let bd = BodyDump { cx: &cx, body, owner, resolve: true };
            if !first {
                out.push(',');
            }
            first = false;
            bd.dump("opt").write(&mut out);
            // promoted constants (`&DelayType::Loop` in a comparison, ...) are separate tiny bodies
            for (pi, pb) in tcx.promoted_mir(did).iter_enumerated() {
                let pd = BodyDump { cx: &cx, body: pb, owner, resolve: true };
                out.push(',');
                pd.dump_as("opt", Some(pi.index())).write(&mut out);
            }
        }
        out.push_str("],");
        let (impls, adts, fns, traits) = items_j(&cx);
        out.push_str("\"impls\":");
        impls.write(&mut out);
        out.push_str(",\"adts\":");
        adts.write(&mut out);
        out.push_str(",\"fns\":");
        fns.write(&mut out);
        out.push_str(",\"traits\":");
        traits.write(&mut out);
        out.push_str(",\"skipped\":{");
        let mut f2 = true;
        for (k, v) in skipped.iter() {
            if !f2 {
                out.push(',');
            }
            f2 = false;
            esc(k, &mut out);
            let _ = write!(out, ":{}", v);
        }
        out.push_str("}}");
        let path = format!("{}/{}.json", self.out_dir, self.tag);
        let tmp = format!("{}.tmp{}", path, std::process::id());
        std::fs::write(&tmp, out).expect("write facts");
        std::fs::rename(&tmp, &path).expect("rename facts");
        Compilation::Continue
    }
}

struct Passthrough;
impl Callbacks for Passthrough {}

fn main() {
    let mut args: Vec<String> = std::env::args().collect();
    // wrapper protocol: argv[1] is the path of the real rustc
    if args.len() > 1 && (args[1].ends_with("rustc") || args[1].contains("/rustc")) {
        args.remove(1);
    }
    let crate_name = args
        .iter()
        .position(|a| a == "--crate-name")
        .and_then(|i| args.get(i + 1))
        .cloned()
        .unwrap_or_default();
    let extra = args
        .iter()
        .find_map(|a| a.strip_prefix("extra-filename="))
        .map(|s| s.to_string())
        .unwrap_or_else(|| "-noextra".into());
    let is_test = args.iter().any(|a| a == "--test");
    let wanted = std::env::var("MIRFACTS_CRATES").unwrap_or_default();
    let out_dir = std::env::var("MIRFACTS_OUT").unwrap_or_default();
    let selected = !out_dir.is_empty()
        && !crate_name.is_empty()
        && !crate_name.starts_with("build_script")
        && !args.iter().any(|a| a.starts_with("--print"))
        && (wanted.is_empty() || wanted.split(',').any(|w| w == crate_name));
    if selected {
        let tag = format!("{}{}{}", crate_name, extra, if is_test { "-test" } else { "" });
        let mut cb = Extract { out_dir, tag };
        rustc_driver::run_compiler(&args, &mut cb);
    } else {
        rustc_driver::run_compiler(&args, &mut Passthrough);
    }
}
