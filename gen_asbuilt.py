#!/usr/bin/env python3
"""Regenerates DESIGN.md §10 (as-built rules per property) from the evidence files and §11 from seeded/*/meta.json."""
import glob, json, os, re
out = ["## 10. As built: the rules each check runs (generated from /verif/evidence by gen_asbuilt.py)", "",
       "One line per rule: id, what it decides, instances examined on the current tree (instances below the floor fail closed).", ""]
man = {c["property_id"]: c for c in json.load(open("MANIFEST.json"))["checks"]}
for f in sorted(glob.glob("evidence/C*.json")):
    e = json.load(open(f))
    pid = e["property_id"]
    out.append("### %s — technique: %s" % (pid, man.get(pid, {}).get("technique", "?")))
    for r in e["coverage"]["rules"]:
        out.append("* `%s` — %s  *(instances: %d, sites examined: %d, floor: %d)*" % (r["rule"], r["what"], r["instances"], r["sites_examined"], r["floor"]))
    if e["coverage"].get("undecided"):
        out.append("* not decided: " + e["coverage"]["undecided"])
    out.append("")
out += ["## 11. Seeded changes: which checks catch which", "",
        "Each change was written by an independent sub-agent that was given only the property text and a scratch worktree (nothing from /verif), compiles, passes the existing tests of the "
        "affected crates and fails its own demonstration; each was re-confirmed with `seeded/confirm.sh` in a scratch worktree and is stored under `seeded/<id>/` (patch.diff, demonstration, "
        "meta.json). Confirmation scope (recorded per seed in meta.json `confirmation_scope`): for changes in lattices / dfir_pipes / sinktools / dfir_lang / dfir_rs / hydro_deploy_integration I "
        "re-ran the demonstration without and with the patch *and* the affected crates' existing tests with the patch; for changes in hydro_lang (whose suite takes hours on the shared, "
        "loaded machine) I re-ran the demonstration both ways and the suite evidence is the authoring agent's log, except C29-2 and C33-1 where I re-ran the whole hydro_lang suite too "
        "(203/203 passed). `seeded/recheck.py` re-applies every stored patch in a scratch worktree and verifies that the rules listed below still report it. Rules marked in the seed's "
        "note as added afterwards were missed by the checks as they stood when the seed arrived. To run the checks against one: `git -C /repo apply seeded/<id>/patch.diff; ./check <prop>; "
        "git -C /repo checkout -- .`.", "",
        "| seed | what it needs to manifest | caught by | note |", "|---|---|---|---|"]
for m in sorted(glob.glob("seeded/*/meta.json")):
    j = json.load(open(m))
    sid = os.path.basename(os.path.dirname(m))
    out.append("| %s (%s) | %s | %s | %s |" % (sid, ", ".join(j["files_changed"]), j["needs_to_manifest"], ", ".join("`%s`" % x for x in j["caught_by"]) if j["caught_by"] else "**missed** — " + j.get("why_missed", "value-level; outside the decided clauses"), j.get("note", "")))
out.append("")
out += ["Side observations reported by the seeding sub-agents on the *unchanged* tree (found by reading, outside the clauses any check decides, therefore neither alarms nor known findings of "
        "this framework; reproductions kept with the seed): (a) `reduce_no_replay` in push placement drops a lone first item that arrives after tick 0 (`was_updated` is only set inside the reduce "
        "closure, which is not called for the first item), pull placement emits it — a C22 divergence; (b) `CrossSingleton::pull` returns Ended without pulling the item side when the singleton side "
        "is empty, so a lazily pulled stateful operator upstream behaves differently in the same subgraph and behind a handoff — a C22 divergence (seeded/C22-1/notes).", ""]
txt = open("DESIGN.md").read()
txt = re.split(r"\n## 10\. As built", txt)[0].rstrip() + "\n\n" + "\n".join(out)
open("DESIGN.md", "w").write(txt)
print("DESIGN.md §10/§11 regenerated")
