"""C12 — push combinators honour the ready/send/finalize protocol (partial: protocol clauses).

Decided on the generic MIR of every `Push`/`PushVariadic` impl of dfir_pipes (+ the adapters that drive a
Push: SinkCompat, SendPush): see proto.py for the typestate rules."""
import mir
import proto
from framework import fn_key
from mir import op_place, pl_local, pl_projs

LEVEL = "other"


def report(ctx, crate, rid_prefix, r, implkey):
    for rule, body, key, msg, bb in r.violations:
        ctx.violation("%s.%s" % (rid_prefix, rule), "%s|%s|%s" % (crate.name, fn_key(crate, body), key), msg,
                      body.loc(bb) if bb is not None else body.loc(), {"function": body.def_path, "block": bb})


def run_protocol(ctx, crate, impls, own_kind, prefix):
    R_READY = ctx.rule(prefix + ".ready", "every start_send on a downstream is dominated by a successful poll_ready on it (typestate per downstream field; "
                       "own start_send starts from the summary of own poll_ready), and no send follows a started finalize")
    R_FIN = ctx.rule(prefix + ".finalize", "own finalize/flush/close returns success only after the corresponding call succeeded on every downstream")
    R_REPOLL = ctx.rule(prefix + ".repoll", "no start_send inside a poll_* function lies on a re-poll cycle that mutates none of the combinator's own state")
    out = []
    for imp in impls:
        spec = proto.Spec(own_kind)
        r = proto.analyze_impl(crate, imp, spec)
        key = "%s|<%s as %s>" % (crate.name, mir_short(imp["self"]), imp["trait"].split("::")[-1])
        sample = {"impl": imp["self"], "file": "%s:%s" % (imp["file"], imp["line"]), "downstreams": sorted(r.downstreams),
                  "ready_on_success_of_own_poll_ready": sorted(r.summary_ready or []),
                  "sends": r.sends, "poll_ready_calls": r.readies, "finalize_calls": r.fins, "helpers": r.helpers}
        ctx.inst(R_READY, key, nontrivial=r.sends > 0, sites=r.sends, sample=sample)
        ctx.inst(R_FIN, key, nontrivial=r.fins > 0, sites=r.ret_sites)
        ctx.inst(R_REPOLL, key, nontrivial=r.sends > 0, sites=r.sends)
        report(ctx, crate, prefix, r, key)
        out.append((imp, r))
    return out


def mir_short(t):
    from framework import short_ty
    return short_ty(t)


def drive_rule(ctx, crate, body, rid):
    """SendPush::poll / SendSink::poll: finalize is reached only after the pull side ended."""
    fa = proto.FnAnalysis(crate, body, proto.Spec("driver"), None)
    b = body
    # E: targets of the `Ended` edge of a switch on the discriminant of a Pull::pull result
    ended_targets = set()
    pull_results = set()
    for bb, t in b.calls():
        f = t.get("f")
        if f and f.get("trait", "").endswith("pull::Pull") and f["name"] == "pull" and isinstance(t.get("dst"), int):
            pull_results.add(t["dst"])
    for bb in range(b.n):
        t = b.term(bb)
        if t["k"] != "switch":
            continue
        dp = op_place(t["d"])
        if not isinstance(dp, int):
            continue
        d = fa.org.single_def(dp)
        if d and d[0] == "assign" and d[2]["k"] == "discr" and pl_local(d[2]["p"]) in pull_results and not pl_projs(d[2]["p"]):
            variants = {v: n for v, n in (d[2].get("variants") or [])}
            for val, tgt in t["ts"]:
                if variants.get(val) == "Ended":
                    ended_targets.add(tgt)
            rest = [n for v, n in variants.items() if v not in [x for x, _ in t["ts"]]]
            if rest == ["Ended"]:
                ended_targets.add(t["o"])
    if not ended_targets:
        ctx.anchor_missing(rid, "no `Ended` edge of a Pull::pull result in %s" % body.def_path)
        return
    # flag writes: (*self.flag) = const true
    flag_idents = set()
    for bb, i, lhs, rv in b.assignments():
        if isinstance(lhs, int) or "*" not in pl_projs(lhs):
            continue
        if rv["k"] == "use" and rv["ops"][0].get("c") in ("true", "const true"):
            ident = fa.org.ident(lhs)
            if ident.startswith("self."):
                if any(b.dominates(e, bb) for e in ended_targets):
                    flag_idents.add(ident)
    # blocks reached by the "flag already true" edge
    flag_true_targets = set()
    for bb in range(b.n):
        t = b.term(bb)
        if t["k"] != "switch":
            continue
        dp = op_place(t["d"])
        if not isinstance(dp, int):
            continue
        neg = False
        cur = dp
        for _ in range(4):
            d = fa.org.single_def(cur)
            if not d or d[0] != "assign":
                break
            rv = d[2]
            if rv["k"] == "un" and rv["op"] == "Not":
                neg = not neg
                p = op_place(rv["ops"][0])
                if isinstance(p, int):
                    cur = p
                    continue
                if p is not None and fa.org.ident(p) in flag_idents:
                    cur = ("flag", fa.org.ident(p))
                break
            if rv["k"] == "use":
                p = op_place(rv["ops"][0])
                if p is None:
                    break
                if isinstance(p, int):
                    cur = p
                    continue
                if fa.org.ident(p) in flag_idents:
                    cur = ("flag", fa.org.ident(p))
                break
            break
        if isinstance(cur, tuple):
            # switch value 0 = false
            zero = [tgt for val, tgt in t["ts"] if val == 0]
            if neg:
                flag_true_targets.update(zero)          # !flag == false  => flag true
            else:
                flag_true_targets.add(t["o"])
    fins = [bb for bb, ev in fa.events.items() if ev["kind"].startswith("fin:")]
    if not fins:
        ctx.anchor_missing(rid, "no finalize call in %s" % body.def_path)
        return
    key = "%s|%s" % (crate.name, fn_key(crate, body))
    ctx.inst(rid, key, sites=len(fins), sample={"function": body.def_path, "ended_edge_targets": sorted(ended_targets),
                                                 "ended_flags": sorted(flag_idents), "finalize_blocks": fins})
    passing = ended_targets | flag_true_targets
    for fb in fins:
        ok, _ = b.all_paths_pass(passing, {fb})
        if not ok:
            path = b.find_path(0, {fb}, avoid=passing)
            ctx.violation(rid, key + "|finalize-before-ended", "the downstream is finalized on a path on which the pull side has not reported Ended "
                          "(neither the Ended arm nor the already-ended flag edge is passed)", b.loc(fb), {"path_blocks": path})
    # Ready(()) only after finalize succeeded: run the typestate with a finalize obligation
    res = proto.ImplResult()
    all_down = {ev["ident"]: ev["dkind"] for ev in fa.events.values()}
    spec = proto.Spec("push")
    proto.run_typestate(fa, frozenset(), frozenset(), {}, res, "fin:poll", all_down)
    for rule, body2, k, msg, bb in res.violations:
        ctx.violation(rid if rule == "finalize" else "C12.ready", "%s|%s" % (key, k), msg.replace("poll can return", "the driver future can complete"),
                      body2.loc(bb) if bb is not None else body2.loc(), {"function": body2.def_path})
    proto.repoll_check(fa, all_down, res)


def run(ctx):
    ctx.explanation = ("Static typestate analysis (rustc MIR, generic bodies, all paths) of the push protocol: ready-before-send, "
                       "finalize-all-downstreams, no re-send on re-poll, and the SendPush driver completing only after Ended+finalize.")
    ctx.undecided = "which items reach which downstream and in what order; behaviour of user closures"
    ctx.assumptions = ["MIR of the nightly toolchain with cfg(nightly) set by the repo's build scripts (differs from stable only in pull/collect.rs)",
                       "calls into core/alloc/std cannot invoke Push/Sink methods on a downstream passed to them"]
    c = mir.load_crate("dfir_pipes")
    push_impls = c.impls_of_trait("push::Push") + c.impls_of_trait("demux_var::PushVariadic")
    res = run_protocol(ctx, c, push_impls, "push", "C12")
    ctx.rules["C12.ready"]["floor"] = 24
    ctx.rules["C12.finalize"]["floor"] = 24
    ctx.rules["C12.repoll"]["floor"] = 24
    # adapters that drive a Push from another trait
    sink_impls = [i for i in c.impls_of_trait("futures_sink::Sink")]
    run_protocol(ctx, c, sink_impls, "sink", "C12")
    R_DRIVE = ctx.rule("C12.drive", "the SendPush future finalizes the push side only after the pull side reported Ended, and completes only after finalize succeeded", floor=1)
    found = False
    for imp in c.impls_of_trait("future::Future"):
        if "send_push::SendPush" in imp["self"]:
            body = c.impl_method(imp, "poll")
            if body is not None:
                found = True
                drive_rule(ctx, c, body, R_DRIVE)
    if not found:
        ctx.anchor_missing(R_DRIVE, "impl Future for SendPush")
    # the item handed to start_send is moved onward on every path
    R_LIN = ctx.rule("C12.linear", "the item parameter of start_send (and every item bound from an upstream result inside the combinator) is moved onward on every "
                     "path: to a downstream, a user closure, or a buffer; intentional discards are table entries", floor=24)
    from p_C11 import linear_rule
    linear_rule(ctx, c, R_LIN, item_groups(c, push_impls), "C12")
    R_TP = ctx.rule("C12.takepend", "a value taken out of a combinator's state (buffer.take(), mem::replace) is never dropped on a path that returns Pending", floor=1)
    from p_C11 import takepend_rule
    takepend_rule(ctx, c, R_TP, set(i.get("self_adt") for i in push_impls if i.get("self_adt")), "dfir_pipes")
    R_PR = ctx.rule("C12.phasereset", "a phase marker is reset to its phase-enabling value only under the Done edge of the downstream's answer (never on a path that can still return Pending)", floor=1)
    from p_C11 import phasereset_rule
    phasereset_rule(ctx, c, R_PR, set(i.get("self_adt") for i in push_impls if i.get("self_adt")))
    R_RS = ctx.rule("C12.retrysafe", "drain loops: no own-state write between the loop head and the downstream readiness check of the same iteration", floor=4)
    from p_C11 import retrysafe_rule
    retrysafe_rule(ctx, c, R_RS, set(i.get("self_adt") for i in push_impls if i.get("self_adt")))


def item_groups(c, impls):
    groups = []
    for imp in impls:
        b = c.impl_method(imp, "start_send")
        if b is None:
            continue
        names = b.var_names()
        params = tuple(l for l in range(2, b.argc + 1) if names.get(l) == "item" or (names.get(l) is None and l == 2))
        bodies = [(b, params)]
        for nm in ("poll_ready", "poll_finalize", "poll_flush", "poll_close"):
            ob = c.impl_method(imp, nm)
            if ob is not None:
                bodies.append(ob)
        bodies += c.closures_of(b.def_path)
        groups.append(("%s|%s" % (c.name, fn_key(c, b)), bodies))
    return groups
