"""Shared library over E1 fact files: bodies, CFG, dominators, dataflow, pretty printing.

Fact format: see engine/mirfacts/src/main.rs.  Places are either an int (bare local) or a
list [local, proj, proj, ...] with proj strings "*", ".N:name", "@Variant", "[..]".
"""
import glob
import json
import os
import re
from functools import lru_cache

WORK = os.environ.get("VERIF_WORK", os.path.join(os.path.dirname(os.path.dirname(os.path.abspath(__file__))), ".work"))
FACTS = os.path.join(WORK, "facts")


# ----------------------------------------------------------------------------- places / operands

def pl_local(p):
    return p if isinstance(p, int) else p[0]


def pl_projs(p):
    return [] if isinstance(p, int) else p[1:]


def pl_str(p):
    if isinstance(p, int):
        return "_%d" % p
    s = "_%d" % p[0]
    for pr in p[1:]:
        if pr == "*":
            s = "(*%s)" % s
        else:
            s += pr
    return s


def pl_fields(p):
    """names of the field projections along a place (ignoring derefs/downcasts)"""
    out = []
    for pr in pl_projs(p):
        if pr.startswith("."):
            out.append(pr.split(":", 1)[1] if ":" in pr else pr[1:])
    return out


def op_place(op):
    if op is None:
        return None
    if "cp" in op:
        return op["cp"]
    if "mv" in op:
        return op["mv"]
    return None


def op_is_move(op):
    return "mv" in op


def op_const(op):
    return op.get("c") if op is not None else None


def op_str(op):
    if "cp" in op:
        return "copy " + pl_str(op["cp"])
    if "mv" in op:
        return "move " + pl_str(op["mv"])
    if "fn" in op:
        return "fn " + op["fn"]["def"]
    return "const " + str(op.get("c"))


# ----------------------------------------------------------------------------- bodies

class Body:
    def __init__(self, j, crate):
        self.j = j
        self.crate = crate
        self.def_path = j["def"]
        self.kind = j["kind"]
        self.stage = j["stage"]
        self.file = j.get("file", "?")
        self.line = j.get("line", 0)
        self.argc = j.get("argc", 0)
        self.root = j.get("root", self.def_path)
        self.name = j.get("name")
        self.impl = j.get("impl")
        self.parent = j.get("parent")
        self.coroutine = j.get("coroutine", False)
        self.locals = j["locals"]
        self.vars = j.get("vars", [])
        self.bbs = j["bbs"]
        self.n = len(self.bbs)
        self._succ = None
        self._pred = None

    # --- naming
    def var_names(self):
        """local -> user variable name (only for bare-local debug entries)"""
        out = {}
        for name, place, _arg in self.vars:
            if isinstance(place, int):
                out.setdefault(place, name)
        return out

    def upvar_names(self):
        """for closures: field index of _1 -> captured variable name"""
        out = {}
        for name, place, _arg in self.vars:
            if not isinstance(place, int) and place[0] == 1:
                for pr in place[1:]:
                    if pr.startswith("."):
                        out[int(pr[1:].split(":")[0])] = name
                        break
        return out

    def loc(self, bb=None):
        if bb is None:
            return "%s:%d" % (self.file, self.line)
        return "%s:%d" % (self.file, self.bbs[bb]["t"].get("ln", 0))

    # --- CFG
    def term(self, bb):
        return self.bbs[bb]["t"]

    def stmts(self, bb):
        return self.bbs[bb]["s"]

    def is_cleanup(self, bb):
        return bool(self.bbs[bb].get("c"))

    def succ_edges(self, bb, unwind=False):
        """list of (label, target)."""
        t = self.bbs[bb]["t"]
        k = t["k"]
        out = []
        if k in ("goto", "falseedge"):
            out.append(("", t["t"]))
        elif k == "switch":
            for v, tgt in t["ts"]:
                out.append((v, tgt))
            out.append(("otherwise", t["o"]))
        elif k in ("drop", "assert"):
            out.append(("", t["t"]))
        elif k == "call":
            if t.get("t") is not None:
                out.append(("", t["t"]))
        elif k == "yield":
            out.append(("resume", t["t"]))
        elif k == "asm":
            for x in t.get("ts", []):
                out.append(("", x))
        if unwind and t.get("u") is not None:
            out.append(("unwind", t["u"]))
        return out

    def succs(self, bb):
        if self._succ is None:
            self._succ = [sorted(set(t for _, t in self.succ_edges(b))) for b in range(self.n)]
        return self._succ[bb]

    def preds(self, bb):
        if self._pred is None:
            self._pred = [[] for _ in range(self.n)]
            for b in range(self.n):
                for s in self.succs(b):
                    self._pred[s].append(b)
        return self._pred[bb]

    def reachable(self, start=0, avoid=()):
        seen = set()
        st = [start]
        avoid = set(avoid)
        while st:
            b = st.pop()
            if b in seen or b in avoid:
                continue
            seen.add(b)
            st.extend(self.succs(b))
        return seen

    def calls(self):
        """yield (bb, term) for every call terminator in non-cleanup blocks"""
        for b in range(self.n):
            t = self.bbs[b]["t"]
            if t["k"] == "call" and not self.is_cleanup(b):
                yield b, t

    def returns(self):
        return [b for b in range(self.n) if self.bbs[b]["t"]["k"] == "return" and not self.is_cleanup(b)]

    # --- dominators (iterative, on non-unwind edges)
    @lru_cache(maxsize=None)
    def dominators(self):
        if getattr(self, "_domsets", None) is not None:
            return self._domsets
        self._domsets = self._dominators()
        return self._domsets

    def _dominators(self):
        n = self.n
        reach = self.reachable(0)
        full = set(reach)
        dom = {b: set(full) for b in reach}
        dom[0] = {0}
        order = self.rpo()
        changed = True
        while changed:
            changed = False
            for b in order:
                if b == 0:
                    continue
                ps = [p for p in self.preds(b) if p in reach]
                if not ps:
                    continue
                new = set.intersection(*(dom[p] for p in ps)) | {b}
                if new != dom[b]:
                    dom[b] = new
                    changed = True
        return dom

    def rpo(self):
        seen = set()
        order = []

        def dfs(b):
            stack = [(b, iter(self.succs(b)))]
            seen.add(b)
            while stack:
                node, it = stack[-1]
                adv = False
                for s in it:
                    if s not in seen:
                        seen.add(s)
                        stack.append((s, iter(self.succs(s))))
                        adv = True
                        break
                if not adv:
                    order.append(node)
                    stack.pop()
        dfs(0)
        order.reverse()
        return order

    def idoms(self):
        """immediate dominators (Cooper-Harvey-Kennedy), cached; unwind edges are not followed (as in succs())"""
        if getattr(self, "_idom", None) is not None:
            return self._idom
        order = self.rpo()
        num = {b: i for i, b in enumerate(order)}
        idom = {0: 0}
        changed = True
        while changed:
            changed = False
            for b in order:
                if b == 0:
                    continue
                new = None
                for p in self.preds(b):
                    if p not in idom or p not in num:
                        continue
                    if new is None:
                        new = p
                    else:
                        x, y = p, new
                        while x != y:
                            while num[x] > num[y]:
                                x = idom[x]
                            while num[y] > num[x]:
                                y = idom[y]
                        new = x
                if new is not None and idom.get(b) != new:
                    idom[b] = new
                    changed = True
        self._idom = idom
        self._domnum = num
        return idom

    def dominates(self, a, b):
        idom = self.idoms()
        if b not in idom or a not in idom:
            return False
        num = self._domnum
        x = b
        while True:
            if x == a:
                return True
            if x == 0 or num[x] < num[a]:
                return False
            x = idom[x]

    def all_paths_pass(self, targets, exits, start=0, avoid_edges=()):
        """True iff every path start->(any of exits) passes through a block in targets.
        Returns (ok, witness_exit)."""
        targets = set(targets)
        seen = set()
        st = [start]
        avoid_edges = set(avoid_edges)
        while st:
            b = st.pop()
            if b in seen or b in targets:
                continue
            seen.add(b)
            if b in exits:
                return False, b
            for s in self.succs(b):
                if (b, s) in avoid_edges:
                    continue
                st.append(s)
        return True, None

    def find_path(self, start, goal_set, avoid=()):
        """BFS path of blocks from start to any goal not passing through avoid."""
        from collections import deque
        goal_set = set(goal_set)
        avoid = set(avoid)
        if start in avoid:
            return None
        prev = {start: None}
        dq = deque([start])
        while dq:
            b = dq.popleft()
            if b in goal_set:
                path = []
                while b is not None:
                    path.append(b)
                    b = prev[b]
                return path[::-1]
            for s in self.succs(b):
                if s not in prev and s not in avoid:
                    prev[s] = b
                    dq.append(s)
        return None

    def in_cycle(self, bb):
        """is bb on a CFG cycle (non-unwind edges)?"""
        seen = set()
        st = list(self.succs(bb))
        while st:
            b = st.pop()
            if b == bb:
                return True
            if b in seen:
                continue
            seen.add(b)
            st.extend(self.succs(b))
        return False

    # --- definitions / uses
    def assignments(self):
        """yield (bb, idx, lhs, rv) for each Assign"""
        for b in range(self.n):
            for i, s in enumerate(self.bbs[b]["s"]):
                if "lhs" in s:
                    yield b, i, s["lhs"], s["rv"]

    def defs_of(self, local):
        """all (bb, idx|'term', rv|term) that define bare local"""
        out = []
        for b in range(self.n):
            for i, s in enumerate(self.bbs[b]["s"]):
                if "lhs" in s and s["lhs"] == local:
                    out.append((b, i, s["rv"]))
            t = self.bbs[b]["t"]
            if t["k"] in ("call", "yield") and t.get("dst") == local:
                out.append((b, "term", t))
        return out

    # --- pretty print
    def pretty(self):
        names = self.var_names()
        lines = ["fn %s  [%s] %s:%d stage=%s argc=%d" % (self.def_path, self.kind, self.file, self.line, self.stage, self.argc)]
        for i, t in enumerate(self.locals):
            nm = names.get(i)
            lines.append("  let _%d: %s%s" % (i, t, "  // " + nm if nm else ""))
        for name, place, arg in self.vars:
            if not isinstance(place, int):
                lines.append("  debug %s => %s" % (name, pl_str(place)))
        for b in range(self.n):
            lines.append("  bb%d%s:" % (b, " (cleanup)" if self.is_cleanup(b) else ""))
            for s in self.bbs[b]["s"]:
                if "lhs" in s:
                    lines.append("    %s = %s   // ln %s" % (pl_str(s["lhs"]), rv_str(s["rv"]), s.get("ln")))
                elif "setdiscr" in s:
                    lines.append("    discriminant(%s) = %s" % (pl_str(s["setdiscr"]), s["variant"]))
            lines.append("    " + term_str(self.bbs[b]["t"]))
        return "\n".join(lines)


def rv_str(rv):
    k = rv["k"]
    if k in ("ref", "refmut", "fakeref", "rawptr"):
        return "%s %s" % ({"ref": "&", "refmut": "&mut", "fakeref": "&fake", "rawptr": "&raw"}[k], pl_str(rv["p"]))
    if k == "discr":
        return "discriminant(%s)" % pl_str(rv["p"])
    if k == "agg":
        adt = rv.get("adt") or {}
        nm = rv["agg"]
        if adt:
            nm = adt.get("def", nm) + ("::" + adt["variant"] if "variant" in adt else "")
        return "%s(%s)" % (nm, ", ".join(op_str(o) for o in rv["ops"]))
    if k == "cast":
        return "%s as %s [%s]" % (op_str(rv["ops"][0]), rv["ty"], rv["cast"])
    if k in ("bin", "un"):
        return "%s(%s)" % (rv["op"], ", ".join(op_str(o) for o in rv["ops"]))
    if k == "use":
        return op_str(rv["ops"][0])
    return k + "(" + ", ".join(op_str(o) for o in rv.get("ops", [])) + ")"


def callee_str(f):
    if f is None:
        return "<indirect>"
    s = f["def"]
    if f.get("self"):
        s = "<%s as %s>::%s" % (f["self"], f.get("trait", "?"), f["name"])
    if f.get("res"):
        s += " => " + f["res"]
    return s


def term_str(t):
    k = t["k"]
    ln = "  // ln %s%s" % (t.get("ln"), " mx=" + t["mx"] if t.get("mx") else "")
    if k == "call":
        return "%s = %s(%s) -> bb%s%s" % (pl_str(t["dst"]), callee_str(t.get("f")) if t.get("f") else op_str(t["fop"]),
                                          ", ".join(op_str(a) for a in t["a"]), t.get("t"), ln)
    if k == "switch":
        return "switch %s [%s, otherwise->bb%s]%s" % (op_str(t["d"]), ", ".join("%s->bb%s" % (v, b) for v, b in t["ts"]), t["o"], ln)
    if k == "drop":
        return "drop(%s) -> bb%s%s" % (pl_str(t["p"]), t["t"], ln)
    if k in ("goto", "falseedge"):
        return "goto bb%s%s" % (t["t"], ln)
    if k == "assert":
        return "assert(%s == %s) -> bb%s%s" % (op_str(t["d"]), t["exp"], t["t"], ln)
    if k == "yield":
        return "%s = yield(%s) -> bb%s%s" % (pl_str(t["dst"]), op_str(t["v"]), t["t"], ln)
    return k + ln


# ----------------------------------------------------------------------------- crate facts

class Crate:
    def __init__(self, name, files):
        self.name = name
        self.files = files
        self.bodies = {}
        self.impls = {}
        self.adts = {}
        self.fns = {}
        self.traits = {}
        self.tags = []
        for f in files:
            with open(f) as fh:
                j = json.load(fh)
            self.tags.append(j.get("tag"))
            for b in j["bodies"]:
                if b["def"] not in self.bodies:
                    self.bodies[b["def"]] = Body(b, name)
            for i in j["impls"]:
                self.impls.setdefault(i["def"], i)
            for a in j["adts"]:
                self.adts.setdefault(a["def"], a)
            for fn in j["fns"]:
                self.fns.setdefault(fn["def"], fn)
            for t in j["traits"]:
                self.traits.setdefault(t["def"], t)

    def body(self, def_path):
        return self.bodies.get(def_path)

    def find_bodies(self, regex):
        r = re.compile(regex)
        return [b for d, b in sorted(self.bodies.items()) if r.search(d)]

    def closures_of(self, def_path):
        return [b for d, b in sorted(self.bodies.items()) if b.root == def_path and d != def_path and b.kind != "Promoted"]

    def impls_of_trait(self, trait_suffix):
        """impls whose trait def-path ends with the given suffix (e.g. '::Merge')"""
        return [i for d, i in sorted(self.impls.items()) if i.get("trait", "").endswith(trait_suffix)]

    def impl_method(self, impl, name):
        for it in impl["items"]:
            if it["name"] == name and it.get("fn"):
                return self.bodies.get(it["def"])
        return None

    def is_test_path(self, def_path):
        return bool(re.search(r"::tests?(::|$)|::test_|_tests?::", def_path))


_crates = {}
_fact_files = None


def set_fact_files(files):
    """files: crate -> [paths] as returned by facts.ensure_facts (the current build configuration)"""
    global _fact_files
    _fact_files = files
    _crates.clear()


def load_crate(name, lib_only=True):
    if name in _crates:
        return _crates[name]
    if _fact_files is not None:
        files = list(_fact_files.get(name, []))
    else:
        files = sorted(glob.glob(os.path.join(FACTS, name + "-*.json")))
    if lib_only:
        files = [f for f in files if not f.endswith("-test.json")]
    if not files:
        raise FileNotFoundError("no fact file for crate %s in %s" % (name, FACTS))
    c = Crate(name, files)
    _crates[name] = c
    return c


# ----------------------------------------------------------------------------- generic forward dataflow

def forward_dataflow(body, init, transfer_block, join, start=0, edge_filter=None, extra_edges=None, max_iter=100000):
    """Worklist forward dataflow over blocks.
    init: state at entry of `start`.
    transfer_block(bb, state_in) -> dict {succ_bb: state_out} (lets callers be edge-sensitive)
    join(a, b) -> merged state (states must support ==)
    returns dict bb -> state at block entry"""
    state_in = {start: init}
    work = [start]
    it = 0
    while work:
        it += 1
        if it > max_iter:
            raise RuntimeError("dataflow did not converge in %s" % body.def_path)
        b = work.pop()
        outs = transfer_block(b, state_in[b])
        if extra_edges and b in extra_edges:
            for tgt, st in extra_edges[b](state_in[b]):
                outs[tgt] = st if tgt not in outs else join(outs[tgt], st)
        for s, st in outs.items():
            if edge_filter and not edge_filter(b, s):
                continue
            if s not in state_in:
                state_in[s] = st
                work.append(s)
            else:
                m = join(state_in[s], st)
                if m != state_in[s]:
                    state_in[s] = m
                    work.append(s)
    return state_in
