"""C03 — comparisons, bottom, top agree with merge (partial: capability use, all-fields for derived impls, sibling shapes)."""
import mir
from framework import fn_key, short_ty
from lattice_common import lattice_impls, impl_key, used_rule, field_calls, struct_fields
from mir import op_place

LEVEL = "other"


def run(ctx):
    ctx.explanation = ("Structural necessary conditions on the MIR of every PartialOrd/PartialEq/IsBot/IsTop impl of `lattices`: every IsBot/IsTop/PartialOrd/PartialEq capability "
                       "the where-clause demands is exercised (this is the 'bottom entries are invisible' clause: MapUnion/WithBot comparisons declare `Val: IsBot` because they "
                       "must filter); derived impls consult every field before answering true; each lattice with a cross-representation Merge has comparisons of the same shape.")
    ctx.undecided = "that the order computed equals the merge-induced order on values; that Default is bottom"
    c = mir.load_crate("lattices")
    R_USED = ctx.rule("C03.used", "every IsBot/IsTop/PartialOrd/PartialEq bound of every comparison / bottom / top impl is exercised by its body", floor=60)
    R_ALL = ctx.rule("C03.allfields", "derive(Lattice) output for PartialEq/IsBot/IsTop answers `true` only after consulting every field", floor=3)
    R_SIB = ctx.rule("C03.sib", "every lattice type with Merge<X<Other>> also has PartialOrd and PartialEq against the same other-representation shape", floor=14)
    impls = lattice_impls(c, {"core::cmp::PartialOrd", "core::cmp::PartialEq", "lattices::IsBot", "lattices::IsTop"})
    impls = [i for i in impls if not (i.get("mx") or "").startswith("#[derive(Partial") and "derive(PartialEq)" not in (i.get("mx") or "") and "derive(PartialOrd)" not in (i.get("mx") or "")]
    used_rule(ctx, c, R_USED, impls, {"lattices::IsBot", "lattices::IsTop", "core::cmp::PartialOrd", "core::cmp::PartialEq", "core::cmp::Ord", "lattices::Merge", "lattices::LatticeFrom"})
    # ---- allfields for derived
    for imp in impls:
        if "derive(Lattice)" not in (imp.get("mx") or "") and "derive(LatticeOrd)" not in (imp.get("mx") or "") and "derive(IsBot)" not in (imp.get("mx") or "") and "derive(IsTop)" not in (imp.get("mx") or ""):
            continue
        tr = imp["trait"]
        meth = {"core::cmp::PartialEq": "eq", "lattices::IsBot": "is_bot", "lattices::IsTop": "is_top"}.get(tr)
        if meth is None:
            continue
        b = c.impl_method(imp, meth)
        fields = struct_fields(c, imp)
        key = impl_key(c, imp)
        if b is None or fields is None:
            ctx.anchor_missing(R_ALL, "%s body / fields of %s" % (meth, key))
            continue
        calls = field_calls(b, tr, meth)
        true_blocks = [bb for bb, i, lhs, rv in b.assignments() if lhs == 0 and rv["k"] == "use" and rv["ops"][0].get("c") == "true"]
        ctx.inst(R_ALL, key, sites=len(fields), sample={"impl": key, "fields": fields, "true_blocks": true_blocks})
        if not true_blocks:
            ctx.violation(R_ALL, key + "|never-true", "the derived %s never answers true" % meth, b.loc())
        for fld in fields:
            blocks = set(calls.get(fld, []))
            for tb in true_blocks:
                ok = bool(blocks) and b.all_paths_pass(blocks, {tb})[0]
                if not ok:
                    ctx.violation(R_ALL, "%s|true-without-field:%s" % (key, fld), "`true` is answered on a path that did not consult field `%s`" % fld, b.loc(tb))
    R_LE = ctx.rule("C03.lenempty", "collection wrappers that override Len::is_empty agree with their own len()", floor=2)
    from lattice_common import len_isempty_rule
    len_isempty_rule(ctx, c, R_LE)
    R_PS = ctx.rule("C03.predsib", "a Merge impl that special-cases bottom/top component values has PartialOrd/PartialEq impls consulting the same predicate", floor=10)
    from lattice_common import predsib_rule
    predsib_rule(ctx, c, R_PS)
    # ---- siblings
    merges = lattice_impls(c, {"lattices::Merge"})
    by_adt = {}
    for imp in lattice_impls(c, {"core::cmp::PartialOrd", "core::cmp::PartialEq"}):
        by_adt.setdefault((imp.get("self_adt"), imp["trait"]), []).append(imp)
    for m in merges:
        adt = m.get("self_adt")
        if not adt:
            continue
        key = impl_key(c, m)
        other = m["trait_args"][1] if len(m.get("trait_args", [])) > 1 else None
        cross = other != m["self"]
        ctx.inst(R_SIB, key, sample={"merge_impl": key, "cross_representation": cross})
        for tr in ("core::cmp::PartialOrd", "core::cmp::PartialEq"):
            sibs = by_adt.get((adt, tr), [])
            if not sibs:
                ctx.violation(R_SIB, "%s|missing:%s" % (key, tr.split("::")[-1]), "lattice type has Merge but no %s impl" % tr.split("::")[-1], "%s:%s" % (m["file"], m["line"]))
                continue
            if cross and not any(len(s.get("trait_args", [])) > 1 and s["trait_args"][1] != s["self"] for s in sibs):
                ctx.violation(R_SIB, "%s|same-repr-only:%s" % (key, tr.split("::")[-1]), "Merge works across representations (%s) but %s is only implemented against the same "
                              "representation" % (short_ty(other), tr.split("::")[-1]), "%s:%s" % (m["file"], m["line"]))
