"""Check runner framework: rule instances, floors, known findings, evidence, exit codes."""
import json
import os
import re
import sys
import time

VERIF = os.path.dirname(os.path.dirname(os.path.abspath(__file__)))
_ALT_WORK = os.environ.get("VERIF_WORK")     # self-test runs against a scratch copy: keep its evidence away from /verif/evidence
EVID = os.path.join(_ALT_WORK, "evidence") if _ALT_WORK else os.path.join(VERIF, "evidence")
REPLAY = os.path.join(_ALT_WORK, "replay") if _ALT_WORK else os.path.join(VERIF, ".work", "replay")
KNOWN = os.path.join(VERIF, "known_findings.txt")


class Ctx:
    """Collects what one property check analysed and found."""

    def __init__(self, prop, tier):
        self.prop = prop
        self.tier = tier
        self.rules = {}          # rule -> {"desc":..., "instances": set(keys), "nontrivial": set(keys), "floor": n}
        self.violations = []     # dicts
        self.samples = []
        self.assumptions = []
        self.notes = []
        self.undecided = ""
        self.explanation = ""
        self.extra = {}
        self.broken = []         # infrastructure problems (fixture did not fire, anchor missing)
        try:
            import exceptions_table
            self.exceptions = dict(exceptions_table.EXCEPTIONS.get(prop, {}))
        except ImportError:
            self.exceptions = {}
        self.excepted = {}       # key -> reason (exceptions that matched a would-be violation)

    def rule(self, rid, desc, floor=0):
        self.rules.setdefault(rid, {"desc": desc, "instances": set(), "nontrivial": set(), "floor": floor, "sites": 0})
        self.rules[rid]["floor"] = floor
        return rid

    def inst(self, rid, key, nontrivial=True, sites=1, sample=None):
        r = self.rules[rid]
        r["instances"].add(key)
        if nontrivial:
            r["nontrivial"].add(key)
        r["sites"] += sites
        if sample is not None and sum(1 for s in self.samples if s.get("rule") == rid) < 3:
            d = {"rule": rid, "instance": key}
            d.update(sample)
            self.samples.append(d)

    def violation(self, rid, key, msg, loc="", detail=None):
        """key identifies the violating construct without line numbers."""
        full_key = "%s|%s" % (rid, key)
        if full_key in self.exceptions:
            self.excepted[full_key] = self.exceptions[full_key]
            return
        for v in self.violations:
            if v["key"] == full_key:
                return
        self.violations.append({"rule": rid, "key": full_key, "msg": msg, "loc": loc, "detail": detail or {}})

    def anchor_missing(self, rid, what):
        self.violation(rid, "anchor-missing|" + what, "anchor missing: %s (the rule cannot be evaluated; fail closed)" % what)

    # ------------------------------------------------------------------ finishing

    def finish(self, t0, seed=0, level="other"):
        # floors
        for rid, r in sorted(self.rules.items()):
            if len(r["instances"]) < r["floor"]:
                self.violation(rid, "anchor-missing|floor", "rule %s matched %d instances, fewer than the %d confirmed by hand (anchor moved or rule blind): fail closed"
                               % (rid, len(r["instances"]), r["floor"]))
        # an exception that no longer matches anything is stale: the table must track the code
        for k in sorted(self.exceptions):
            if k not in self.excepted:
                self.violation("exceptions", "stale-exception|" + k,
                               "exception table entry no longer matches any instance (code changed: re-review and update rules/exceptions_table.py): " + k)
        known = load_known(self.prop)
        new, suppressed = [], []
        for v in self.violations:
            if v["key"] in known:
                suppressed.append((v, known[v["key"]]))
            else:
                new.append(v)
        os.makedirs(EVID, exist_ok=True)
        os.makedirs(REPLAY, exist_ok=True)
        for v, desc in suppressed:
            print("KNOWN-FINDING: property=%s %s [%s]" % (self.prop, desc, v["key"]))
        for i, v in enumerate(new):
            path = os.path.join(REPLAY, "%s-%d.json" % (self.prop, i))
            with open(path, "w") as f:
                json.dump({"property": self.prop, "violation": v}, f, indent=1)
            print("  rule=%s %s\n    at %s\n    key=%s" % (v["rule"], v["msg"], v["loc"], v["key"]))
            print("VIOLATION property=%s replay=%s" % (self.prop, path))
        obligations = sum(len(r["instances"]) for r in self.rules.values())
        nontrivial = sum(len(r["nontrivial"]) for r in self.rules.values())
        violated = len(set(v["key"] for v in self.violations))
        rule_list = []
        for rid, r in sorted(self.rules.items()):
            rule_list.append({"rule": rid, "what": r["desc"], "instances": len(r["instances"]), "nontrivial_instances": len(r["nontrivial"]),
                              "sites_examined": r["sites"], "floor": r["floor"]})
        cov = {
            "explanation": self.explanation,
            "undecided": self.undecided,
            "obligations": obligations,
            "discharged": max(0, obligations - violated),
            "evaluations": max(1, obligations),
            "distinct_nontrivial": nontrivial,
            "rule": "one obligation per (rule, instance): an instance is a function/impl/call-site/table-row the rule quantifies over; "
                    "non-trivial = the rule found at least one relevant site (call, path, write, bound) inside the instance and examined it",
            "rules": rule_list,
            "samples": self.samples[:12] if self.samples else [{"note": "no sample recorded"}],
            "exhaustive": True,
            "known_findings_suppressed": [v["key"] for v, _ in suppressed],
            "table_exceptions_applied": [{"key": k, "reason": r} for k, r in sorted(self.excepted.items())],
            "new_violations": [{"key": v["key"], "msg": v["msg"], "loc": v["loc"]} for v in new],
            "checker_cmd": "./check %s --tier %s" % (self.prop, self.tier),
            "trusted_base": ["rustc nightly type checker + MIR construction", "cargo build graph", "the rule tables under /verif/rules"],
        }
        cov.update(self.extra)
        ev = {
            "property_id": self.prop,
            "tier": self.tier,
            "seed": seed,
            "level": level,
            "coverage": cov,
            "assumptions": self.assumptions,
            "wall_s": round(time.time() - t0, 2),
            "violations": len(new),
        }
        with open(os.path.join(EVID, self.prop + ".json"), "w") as f:
            json.dump(ev, f, indent=1)
        summary = "%s: %d rules, %d instances (%d non-trivial), %d violations (%d known)" % (
            self.prop, len(self.rules), obligations, nontrivial, len(new), len(suppressed))
        print(summary)
        return 1 if new else 0


def load_known(prop):
    """known_findings.txt: lines `known: property=<id> key=<key> :: <what fails>`; `fixed:` lines suppress nothing."""
    out = {}
    if not os.path.exists(KNOWN):
        return out
    for line in open(KNOWN):
        line = line.strip()
        m = re.match(r"known:\s+property=(\S+)\s+key=(.*?)\s+::\s+(.*)$", line)
        if m and m.group(1) == prop:
            out[m.group(2)] = m.group(3)
    return out


# ---------------------------------------------------------------------------- keys

def fn_key(crate, body_or_def):
    """stable, line-free key of a function: '<Self as Trait>::name' for impl methods, def path otherwise.
    Closures get '{closure}' appended (index dropped only if unique)."""
    from mir import Body
    b = body_or_def
    root = b.root if isinstance(b, Body) else b
    suffix = ""
    if isinstance(b, Body) and b.def_path != b.root:
        suffix = b.def_path[len(b.root):]
    fn = crate.fns.get(root)
    if fn and fn.get("impl"):
        imp = crate.impls.get(fn["impl"])
        if imp:
            if imp.get("trait"):
                targs = imp.get("trait_args", [])[1:]
                tr = imp["trait"].split("::")[-1] + ("<%s>" % ", ".join(short_ty(t) for t in targs) if targs else "")
                return "<%s as %s>::%s%s" % (short_ty(imp["self"]), tr, fn["name"], suffix)
            return "%s::%s%s" % (short_ty(imp["self"]), fn["name"], suffix)
    return re.sub(r"\{impl#\d+\}", "{impl}", root) + suffix


def short_ty(t):
    """drop module paths from a type string"""
    return re.sub(r"([A-Za-z_][A-Za-z0-9_]*::)+", "", t)
