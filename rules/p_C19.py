"""C19 — exactly same-tick cycles are rejected (partial: the dependency relation fed to the sorter; the error path)."""
import mir
import proto
from framework import fn_key
from mir import op_place, pl_local
from p_C17 import variant_target, switch_targets_on, root_copy
from p_C18 import calls_named, backward_sources, closure_calls, MOD

LEVEL = "other"


def run(ctx):
    ctx.explanation = ("The partitioner rejects a graph iff topo_sort over the predecessor map fails. Decided structurally (MIR): the map receives every pipe edge that is NOT a tick "
                       "edge (the push is dominated by the not-contained edge of tick_edges.contains_key and no delayed edge is pushed), plus handoff-reference producers, access-"
                       "group pairs and loop-ingress constraints; the predecessor closure given to SubgraphMerge::new reads that map; the only Err of partition_graph comes from "
                       "that constructor's cycle, and the diagnostic is built from the cycle.")
    ctx.undecided = "that topo_sort's reported cycle is a real cycle (C17's undecided part)"
    c = mir.load_crate("dfir_lang")
    fsu = c.bodies.get(MOD + "find_subgraph_unionfind")
    pg = c.bodies.get(MOD + "partition_graph")
    ms = c.bodies.get(MOD + "make_subgraphs")
    R_P = ctx.rule("C19.preds", "all_preds gets every non-tick pipe edge (guarded by !tick_edges.contains_key), handoff-reference producers, access-group pairs and loop-ingress edges", floor=4)
    R_E = ctx.rule("C19.err", "the only error of partition_graph is the cycle returned by SubgraphMerge::new, and the diagnostic is built from that cycle", floor=2)
    if not all([fsu, pg, ms]):
        ctx.anchor_missing(R_P, "find_subgraph_unionfind / partition_graph / make_subgraphs")
        return
    refdeps_rule(ctx, c, fsu)
    accessgroups_rule(ctx, c)
    key = "dfir_lang|find_subgraph_unionfind"
    org = proto.Origins(fsu)
    pushes = calls_named(fsu, {"push"})
    cks = [(bb, t["dst"]) for bb, t in fsu.calls() if t.get("f") and t["f"]["name"] == "contains_key" and isinstance(t.get("dst"), int)
           and "tick_edges" in (fsu.var_names().get(org.origin_place(op_place(t["a"][0]))[0], "") if t["a"] and op_place(t["a"][0]) is not None else "")]
    # (i) pipe edges guarded
    guarded = []
    for cb, d in cks:
        for sb, f_t, t_t in switch_targets_on(fsu, d):
            for pb in pushes:
                if f_t is not None and fsu.dominates(f_t, pb) and not fsu.dominates(t_t, pb):
                    guarded.append((cb, pb))
            # the contained (tick) edge must not push before the next iteration
            nexts = set(bb for bb, t in fsu.calls() if t.get("f") and t["f"]["name"] == "next")
            reach = fsu.reachable(start=t_t, avoid=nexts)
            bad = [pb for pb in pushes if pb in reach and not any(pb == g for _, g in guarded)]
            if bad and f_t is not None and not any(fsu.dominates(f_t, pb) for pb in bad):
                ctx.violation(R_P, "%s|tick-edge-in-preds" % key, "a delayed (tick) edge can be pushed into the same-tick predecessor map: a legal deferred cycle would be rejected", fsu.loc(bad[0]))
    # every insertion made by the loop over the graph's pipe edges is on the not-a-tick-edge side of the test
    import guards as _g
    G2 = _g.Guards(fsu, {"contains_key"})
    edge_iter_types = set(fsu.locals[t["dst"]] for bb, t in fsu.calls() if t.get("f") and t["f"]["name"] == "edges" and not fsu.is_cleanup(bb) and isinstance(t.get("dst"), int))
    heads = [bb for bb, t in fsu.calls() if t.get("f") and t["f"]["name"] == "next" and not fsu.is_cleanup(bb) and (t["f"].get("self") or "") in edge_iter_types]
    pipe_pushes = [pb for pb in pushes if not fsu.is_cleanup(pb) and any(fsu.dominates(h, pb) and h in fsu.reachable(start=pb) for h in heads)]
    if not heads:
        ctx.anchor_missing(R_P, "the loop over partitioned_graph.edges() in find_subgraph_unionfind")
    for pb in pipe_pushes:
        if ("contains_key", False) not in G2.guards_of(pb):
            if True:
                ctx.violation(R_P, "%s|tick-edge-in-preds" % key, "the loop over the graph's pipe edges inserts an edge into the same-tick predecessor map without the `!tick_edges.contains_key(edge)` "
                              "test: a delayed (tick) edge becomes a same-tick dependency and a legal deferred cycle is rejected", fsu.loc(pb))
    ctx.inst(R_P, key + "|pipe-edges", sites=len(cks), sample={"contains_key_blocks": [b for b, _ in cks], "guarded_pushes": guarded})
    if len(set(cb for cb, _ in guarded)) < 1:
        ctx.violation(R_P, key + "|pipe-edges-unguarded", "no push into the predecessor map is guarded by `!tick_edges.contains_key(edge)`", fsu.loc())
    # (ii)-(iv): pushes dominated by the respective source calls
    for what, names in (("handoff-references", {"node_handoff_references"}), ("loop-ingress", {"loop_nodes"})):
        srcs = calls_named(fsu, names)
        ok = any(fsu.dominates(s, pb) for s in srcs for pb in pushes)
        ctx.inst(R_P, "%s|%s" % (key, what), sites=len(srcs), sample={"source_call_blocks": srcs})
        if not ok:
            ctx.violation(R_P, "%s|missing-preds:%s" % (key, what), "no push into the predecessor map depends on %s: that ordering constraint is not part of the cycle check" % what, fsu.loc())
    # access group pairs: a push whose value derives from iterating param access_group_pairs
    names_ = fsu.var_names()
    agp = [l for l in range(1, fsu.argc + 1) if names_.get(l) == "access_group_pairs"]
    ok = False
    for bb, t in fsu.calls():
        f = t.get("f")
        if f and f["name"] in ("into_iter", "iter") and t["a"] and op_place(t["a"][0]) is not None:
            r, path = org.origin_place(op_place(t["a"][0]))
            if agp and r == agp[0]:
                if any(fsu.dominates(bb, pb) for pb in pushes):
                    ok = True
    ctx.inst(R_P, key + "|access-groups", sites=1)
    if not ok:
        ctx.violation(R_P, key + "|missing-preds:access-groups", "no push into the predecessor map iterates access_group_pairs", fsu.loc())
    # preds closure reads all_preds
    news = [(bb, t) for bb, t in fsu.calls() if t.get("f") and t["f"]["name"] == "new" and "SubgraphMerge" in t["f"].get("impl_self", "")]
    for bb, t in news:
        pp = op_place(t["a"][1]) if len(t["a"]) > 1 else None
        ok = False
        if pp is not None:
            params, closures = backward_sources(fsu, c, pl_local(pp))
            for cd in closures:
                cb = c.bodies.get(cd)
                if cb is not None and "all_preds" in cb.upvar_names().values():
                    ok = True
        if not ok:
            ctx.violation(R_P, key + "|preds-fn-not-all-preds", "the predecessor function given to the sorter does not read all_preds", fsu.loc(bb))
    # ---- err
    key = "dfir_lang|partition_graph"
    err_sites = {}
    for nm, b in (("partition_graph", pg), ("make_subgraphs", ms), ("find_subgraph_unionfind", fsu)):
        n = 0
        for bb, i, lhs, rv in b.assignments():
            if rv["k"] == "agg" and (rv.get("adt") or {}).get("def") == "core::result::Result" and rv["adt"]["variant"] == "Err" and not b.is_cleanup(bb):
                n += 1
        err_sites[nm] = n
    ctx.inst(R_E, key, sites=sum(err_sites.values()), sample={"explicit_Err_constructions": err_sites})
    # partition_graph constructs exactly one Err (wrapping make_subgraphs' diagnostic); the helpers construct none (they use `?`)
    if err_sites["make_subgraphs"] or err_sites["find_subgraph_unionfind"]:
        ctx.violation(R_E, key + "|extra-error-path", "make_subgraphs / find_subgraph_unionfind construct an Err besides the cycle error of SubgraphMerge::new", ms.loc())
    if err_sites["partition_graph"] != 1:
        ctx.violation(R_E, key + "|error-paths:%d" % err_sites["partition_graph"], "partition_graph has %d explicit Err constructions (expected exactly the one wrapping make_subgraphs' diagnostic)" % err_sites["partition_graph"], pg.loc())
    # map_err on the constructor's result, closure builds the message from its argument
    key2 = "dfir_lang|find_subgraph_unionfind|map_err"
    ok = False
    for bb, t in news:
        d = t.get("dst")
        for bb2, t2 in fsu.calls():
            f2 = t2.get("f")
            if f2 and f2["name"] == "map_err" and t2["a"] and op_place(t2["a"][0]) == d:
                for a in t2["a"][1:]:
                    p = op_place(a)
                    if isinstance(p, int) and fsu.locals[p].startswith("closure#"):
                        cb = c.bodies.get(fsu.locals[p][8:])
                        if cb is not None:
                            # the closure's parameter (_2) is read (iterated)
                            uses = sum(1 for _bb, tt in cb.calls() for a2 in tt["a"] if op_place(a2) is not None and root_copy(cb, pl_local(op_place(a2))) == 2)
                            ok = uses > 0
    ctx.inst(R_E, key2, sites=1, sample={"cycle_used_in_diagnostic": ok})
    if not ok:
        ctx.violation(R_E, key2 + "|cycle-not-reported", "the diagnostic for a same-tick cycle is not built from the cycle returned by the sorter", fsu.loc())


def refdeps_rule(ctx, c, fsu, rid="C19.refdeps"):
    """same-tick dependencies that stem from a handoff *reference* (producer before borrower, borrower before the handoff's consumers) and from access
    groups are inserted regardless of tick_edges: a delayed pipe edge does not delay a reference"""
    import guards
    R = ctx.rule(rid, "reference and access-group dependencies are inserted into the predecessor map unconditionally (never filtered by tick_edges)", floor=1)
    key = "dfir_lang|find_subgraph_unionfind"
    G = guards.Guards(fsu, {"contains_key"})
    refs = [bb for bb, t in fsu.calls() if t.get("f") and t["f"]["name"] == "node_handoff_references" and not fsu.is_cleanup(bb)]
    pushes = [bb for bb, t in fsu.calls() if t.get("f") and t["f"]["name"] == "push" and not fsu.is_cleanup(bb)]
    # pushes that belong to the reference loop: dominated by the node_handoff_references call that is in a cycle with them
    ref_pushes = [pb for pb in pushes if any(fsu.dominates(rb, pb) and rb in fsu.reachable(start=pb) for rb in refs)]
    ctx.inst(R, key, sites=len(ref_pushes), sample={"reference_dependency_pushes": ref_pushes, "guards": [sorted(map(str, G.guards_of(pb))) for pb in ref_pushes]})
    if len(ref_pushes) < 2:
        ctx.anchor_missing(R, "the two reference-dependency insertions (producer->borrower, borrower->consumers) in find_subgraph_unionfind")
    # the borrower-before-consumers ordering applies to every kind of handoff: no test of the handoff's kind may decide whether it is inserted
    for pb in ref_pushes:
        for sb in range(fsu.n):
            t = fsu.term(sb)
            if t["k"] != "switch" or fsu.is_cleanup(sb) or not fsu.dominates(sb, pb) or sb == pb:
                continue
            tgts = [tg for _v, tg in t["ts"]] + [t["o"]]
            live = [tg for tg in tgts if fsu.term(tg)["k"] != "unreachable"]
            deciding = [tg for tg in live if pb in fsu.reachable(start=tg, avoid={sb})]
            if len(deciding) == len(live):
                continue          # every arm reaches the insertion: not a deciding test
            d = op_place(t["d"])
            src_ty = None
            for st in fsu.stmts(sb):
                if "lhs" in st and d is not None and pl_local(st["lhs"]) == pl_local(d) and st["rv"].get("k") == "discr":
                    pp = st["rv"]["p"]
                    src_ty = fsu.locals[pl_local(pp)] + "".join(x for x in (pp[1:] if not isinstance(pp, int) else []) if isinstance(x, str))
            if src_ty and "kind" in src_ty and "Handoff" in src_ty or (src_ty and "HandoffKind" in src_ty):
                ctx.violation(R, key + "|reference-dependency-by-handoff-kind", "the dependency created by a handoff reference is inserted only for some kinds of handoff (a test of the handoff's `kind` "
                              "decides it): for the other kinds the handoff's consumers are no longer ordered after the borrower", fsu.loc(sb))
    for pb in ref_pushes:
        g = [x for x in G.guards_of(pb) if x[0] == "contains_key"]
        if g:
            ctx.violation(R, key + "|reference-dependency-filtered", "a dependency created by a handoff reference is inserted only when tick_edges does%s contain an edge: a reference is a same-tick "
                          "dependency even if the consumer's pipe input is delayed, so a same-tick cycle through it would be accepted" % (" not" if not g[0][1] else ""), fsu.loc(pb))


def accessgroups_rule(ctx, c, rid="C19.accessgroups"):
    """access groups of one reference target are chained pairwise (overlapping windows) and every pair of members yields an ordering pair unconditionally"""
    R = ctx.rule(rid, "access-group ordering: consecutive groups are chained with overlapping windows and every member pair is emitted unconditionally", floor=1)
    b = c.bodies.get(MOD + "find_access_group_ordering")
    if b is None:
        ctx.anchor_missing(R, "find_access_group_ordering")
        return
    key = "dfir_lang|find_access_group_ordering"
    names = [t["f"]["name"] for bb, t in b.calls() if t.get("f")]
    pushes = [bb for bb, t in b.calls() if t.get("f") and t["f"]["name"] == "push" and not b.is_cleanup(bb)]
    ctx.inst(R, key, sites=len(pushes), sample={"adaptors": [n for n in names if n in ("tuple_windows", "tuples", "windows", "chunks", "zip", "skip", "step_by", "array_windows")]})
    if "tuple_windows" not in names and "windows" not in names and "array_windows" not in names:
        ctx.violation(R, key + "|not-chained", "consecutive access groups are not paired with overlapping windows (tuple_windows): ordering between some adjacent groups is never emitted and the "
                      "chain g0 < g1 < g2 ... loses its transitivity", b.loc())
    if not pushes:
        ctx.anchor_missing(R, "emission of ordering pairs in find_access_group_ordering")
    # the push is conditional only on loop iteration (Option discriminants of next()) and on the conflict assertion
    for pb in pushes:
        for sb in range(b.n):
            ts = b.term(sb)
            if ts["k"] != "switch" or b.is_cleanup(sb):
                continue
            dp = op_place(ts["d"])
            if not isinstance(dp, int):
                continue
            tgts = [t_ for _v, t_ in ts["ts"]] + [ts["o"]]
            dom = [t_ for t_ in tgts if b.dominates(t_, pb) and len(b.preds(t_)) == 1]
            if not dom or all(b.dominates(t_, pb) for t_ in tgts):
                continue
            # what is switched on?
            kinds = set()
            for db, idx, rv in b.defs_of(dp):
                if idx == "term":
                    f = rv.get("f") if rv["k"] == "call" else None
                    kinds.add("call:" + (f["name"] if f else "?"))
                elif rv["k"] == "discr":
                    kinds.add("discr")
                elif rv["k"] == "bin":
                    kinds.add("bin:" + str(rv.get("op")))
                elif rv["k"] == "use":
                    kinds.add("use")
                else:
                    kinds.add(rv["k"])
            benign = kinds <= {"discr", "call:ne", "call:eq", "bin:Eq", "bin:Ne", "use"}
            # the assert_ne! comparison diverges on its failing edge; loop conditions are discriminants of next()
            others = [t_ for t_ in tgts if t_ not in dom]
            diverges = all(not (set(b.returns()) & b.reachable(start=o)) or b.dominates(sb, o) and pb in b.reachable(start=o) for o in others)
            if not benign:
                ctx.violation(R, key + "|conditional-pair", "an ordering pair between two access groups is emitted only under an extra condition (%s): some adjacent groups are left unordered" % sorted(kinds), b.loc(sb))
