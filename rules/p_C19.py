"""C19 — exactly same-tick cycles are rejected (partial: the dependency relation fed to the sorter; the error path)."""
import mir
import proto
from framework import fn_key
from mir import op_place, pl_local
from p_C17 import variant_target, switch_targets_on, root_copy
from p_C18 import calls_named, backward_sources, closure_calls, MOD

LEVEL = "other"


def run(ctx):
    ctx.explanation = ("The partitioner rejects a graph iff topo_sort over the predecessor map fails. Decided structurally (MIR): the map receives every pipe edge that is NOT a tick "
                       "edge (the push is dominated by the not-contained edge of tick_edges.contains_key and no delayed edge is pushed), plus handoff-reference producers, access-"
                       "group pairs and loop-ingress constraints; the predecessor closure given to SubgraphMerge::new reads that map; the only Err of partition_graph comes from "
                       "that constructor's cycle, and the diagnostic is built from the cycle.")
    ctx.undecided = "that topo_sort's reported cycle is a real cycle (C17's undecided part)"
    c = mir.load_crate("dfir_lang")
    fsu = c.bodies.get(MOD + "find_subgraph_unionfind")
    pg = c.bodies.get(MOD + "partition_graph")
    ms = c.bodies.get(MOD + "make_subgraphs")
    R_P = ctx.rule("C19.preds", "all_preds gets every non-tick pipe edge (guarded by !tick_edges.contains_key), handoff-reference producers, access-group pairs and loop-ingress edges", floor=4)
    R_E = ctx.rule("C19.err", "the only error of partition_graph is the cycle returned by SubgraphMerge::new, and the diagnostic is built from that cycle", floor=2)
    if not all([fsu, pg, ms]):
        ctx.anchor_missing(R_P, "find_subgraph_unionfind / partition_graph / make_subgraphs")
        return
    key = "dfir_lang|find_subgraph_unionfind"
    org = proto.Origins(fsu)
    pushes = calls_named(fsu, {"push"})
    cks = [(bb, t["dst"]) for bb, t in fsu.calls() if t.get("f") and t["f"]["name"] == "contains_key" and isinstance(t.get("dst"), int)
           and "tick_edges" in (fsu.var_names().get(org.origin_place(op_place(t["a"][0]))[0], "") if t["a"] and op_place(t["a"][0]) is not None else "")]
    # (i) pipe edges guarded
    guarded = []
    for cb, d in cks:
        for sb, f_t, t_t in switch_targets_on(fsu, d):
            for pb in pushes:
                if f_t is not None and fsu.dominates(f_t, pb) and not fsu.dominates(t_t, pb):
                    guarded.append((cb, pb))
            # the contained (tick) edge must not push before the next iteration
            nexts = set(bb for bb, t in fsu.calls() if t.get("f") and t["f"]["name"] == "next")
            reach = fsu.reachable(start=t_t, avoid=nexts)
            bad = [pb for pb in pushes if pb in reach and not any(pb == g for _, g in guarded)]
            if bad and f_t is not None and not any(fsu.dominates(f_t, pb) for pb in bad):
                ctx.violation(R_P, "%s|tick-edge-in-preds" % key, "a delayed (tick) edge can be pushed into the same-tick predecessor map: a legal deferred cycle would be rejected", fsu.loc(bad[0]))
    ctx.inst(R_P, key + "|pipe-edges", sites=len(cks), sample={"contains_key_blocks": [b for b, _ in cks], "guarded_pushes": guarded})
    if len(set(cb for cb, _ in guarded)) < 1:
        ctx.violation(R_P, key + "|pipe-edges-unguarded", "no push into the predecessor map is guarded by `!tick_edges.contains_key(edge)`", fsu.loc())
    # (ii)-(iv): pushes dominated by the respective source calls
    for what, names in (("handoff-references", {"node_handoff_references"}), ("loop-ingress", {"loop_nodes"})):
        srcs = calls_named(fsu, names)
        ok = any(fsu.dominates(s, pb) for s in srcs for pb in pushes)
        ctx.inst(R_P, "%s|%s" % (key, what), sites=len(srcs), sample={"source_call_blocks": srcs})
        if not ok:
            ctx.violation(R_P, "%s|missing-preds:%s" % (key, what), "no push into the predecessor map depends on %s: that ordering constraint is not part of the cycle check" % what, fsu.loc())
    # access group pairs: a push whose value derives from iterating param access_group_pairs
    names_ = fsu.var_names()
    agp = [l for l in range(1, fsu.argc + 1) if names_.get(l) == "access_group_pairs"]
    ok = False
    for bb, t in fsu.calls():
        f = t.get("f")
        if f and f["name"] in ("into_iter", "iter") and t["a"] and op_place(t["a"][0]) is not None:
            r, path = org.origin_place(op_place(t["a"][0]))
            if agp and r == agp[0]:
                if any(fsu.dominates(bb, pb) for pb in pushes):
                    ok = True
    ctx.inst(R_P, key + "|access-groups", sites=1)
    if not ok:
        ctx.violation(R_P, key + "|missing-preds:access-groups", "no push into the predecessor map iterates access_group_pairs", fsu.loc())
    # preds closure reads all_preds
    news = [(bb, t) for bb, t in fsu.calls() if t.get("f") and t["f"]["name"] == "new" and "SubgraphMerge" in t["f"].get("impl_self", "")]
    for bb, t in news:
        pp = op_place(t["a"][1]) if len(t["a"]) > 1 else None
        ok = False
        if pp is not None:
            params, closures = backward_sources(fsu, c, pl_local(pp))
            for cd in closures:
                cb = c.bodies.get(cd)
                if cb is not None and "all_preds" in cb.upvar_names().values():
                    ok = True
        if not ok:
            ctx.violation(R_P, key + "|preds-fn-not-all-preds", "the predecessor function given to the sorter does not read all_preds", fsu.loc(bb))
    # ---- err
    key = "dfir_lang|partition_graph"
    err_sites = {}
    for nm, b in (("partition_graph", pg), ("make_subgraphs", ms), ("find_subgraph_unionfind", fsu)):
        n = 0
        for bb, i, lhs, rv in b.assignments():
            if rv["k"] == "agg" and (rv.get("adt") or {}).get("def") == "core::result::Result" and rv["adt"]["variant"] == "Err" and not b.is_cleanup(bb):
                n += 1
        err_sites[nm] = n
    ctx.inst(R_E, key, sites=sum(err_sites.values()), sample={"explicit_Err_constructions": err_sites})
    # partition_graph constructs exactly one Err (wrapping make_subgraphs' diagnostic); the helpers construct none (they use `?`)
    if err_sites["make_subgraphs"] or err_sites["find_subgraph_unionfind"]:
        ctx.violation(R_E, key + "|extra-error-path", "make_subgraphs / find_subgraph_unionfind construct an Err besides the cycle error of SubgraphMerge::new", ms.loc())
    if err_sites["partition_graph"] != 1:
        ctx.violation(R_E, key + "|error-paths:%d" % err_sites["partition_graph"], "partition_graph has %d explicit Err constructions (expected exactly the one wrapping make_subgraphs' diagnostic)" % err_sites["partition_graph"], pg.loc())
    # map_err on the constructor's result, closure builds the message from its argument
    key2 = "dfir_lang|find_subgraph_unionfind|map_err"
    ok = False
    for bb, t in news:
        d = t.get("dst")
        for bb2, t2 in fsu.calls():
            f2 = t2.get("f")
            if f2 and f2["name"] == "map_err" and t2["a"] and op_place(t2["a"][0]) == d:
                for a in t2["a"][1:]:
                    p = op_place(a)
                    if isinstance(p, int) and fsu.locals[p].startswith("closure#"):
                        cb = c.bodies.get(fsu.locals[p][8:])
                        if cb is not None:
                            # the closure's parameter (_2) is read (iterated)
                            uses = sum(1 for _bb, tt in cb.calls() for a2 in tt["a"] if op_place(a2) is not None and root_copy(cb, pl_local(op_place(a2))) == 2)
                            ok = uses > 0
    ctx.inst(R_E, key2, sites=1, sample={"cycle_used_in_diagnostic": ok})
    if not ok:
        ctx.violation(R_E, key2 + "|cycle-not-reported", "the diagnostic for a same-tick cycle is not built from the cycle returned by the sorter", fsu.loc())
