"""Per-symbol exceptions (one named instance each, with the reason). An entry that stops matching is reported."""
_SM = ("state-machine sink: whether the inner sink exists and is ready depends on the enum state (Uninit/Thunkulating/Done) carried between "
       "calls; the field typestate cannot relate `own poll_ready returned Ready` to `state is Done and inner sink ready`. "
       "The sends *inside* its poll functions (buffered first item) are still checked.")
EXCEPTIONS = {
    "C14": {
        "C14.ready|sinktools|<LazySink<Func, Fut, Si, Item> as Sink<Item>>::start_send|unready-send:self.state.sink": _SM,
        "C14.finalize|sinktools|<LazySink<Func, Fut, Si, Item> as Sink<Item>>::poll_flush|missing:self.state.sink": _SM + " Uninit returns Ready(Ok) lazily (nothing was sent); otherwise the result is the inner sink's, passed through a function-pointer parameter.",
        "C14.finalize|sinktools|<LazySink<Func, Fut, Si, Item> as Sink<Item>>::poll_close|missing:self.state.sink": _SM + " Uninit returns Ready(Ok) lazily (nothing was sent); otherwise the result is the inner sink's, passed through a function-pointer parameter.",
        "C14.ready|sinktools|<LazySinkHalf<Fut, St, Si, Item, Error> as Sink<Item>>::start_send|unready-send:self.state.?borrow_mut.sink": _SM,
        "C14.finalize|sinktools|<LazySinkHalf<Fut, St, Si, Item, Error> as Sink<Item>>::poll_flush|missing:self.state.?borrow_mut.sink": _SM + " Uninit returns Ready(Ok) lazily (nothing was sent).",
        "C14.finalize|sinktools|<LazySinkHalf<Fut, St, Si, Item, Error> as Sink<Item>>::poll_close|missing:self.state.?borrow_mut.sink": _SM + " Uninit returns Ready(Ok) lazily (nothing was sent).",
    },
}
