"""Per-symbol exceptions (one named instance each, with the reason). An entry that stops matching is reported."""
_SM = ("state-machine sink: whether the inner sink exists and is ready depends on the enum state (Uninit/Thunkulating/Done) carried between "
       "calls; the field typestate cannot relate `own poll_ready returned Ready` to `state is Done and inner sink ready`. "
       "The sends *inside* its poll functions (buffered first item) are still checked.")
EXCEPTIONS = {
    "C14": {
        "C14.linear|sinktools|<Filter<Si, Func> as Sink<Item>>::start_send|dropped:itemx1": "intentional: the predicate rejected the item (filter semantics)",
        "C14.ready|sinktools|<LazySink<Func, Fut, Si, Item> as Sink<Item>>::start_send|unready-send:self.state.sink": _SM,
        "C14.finalize|sinktools|<LazySink<Func, Fut, Si, Item> as Sink<Item>>::poll_flush|missing:self.state.sink": _SM + " Uninit returns Ready(Ok) lazily (nothing was sent); otherwise the result is the inner sink's, passed through a function-pointer parameter.",
        "C14.finalize|sinktools|<LazySink<Func, Fut, Si, Item> as Sink<Item>>::poll_close|missing:self.state.sink": _SM + " Uninit returns Ready(Ok) lazily (nothing was sent); otherwise the result is the inner sink's, passed through a function-pointer parameter.",
        "C14.ready|sinktools|<LazySinkHalf<Fut, St, Si, Item, Error> as Sink<Item>>::start_send|unready-send:self.state.?borrow_mut.sink": _SM,
        "C14.finalize|sinktools|<LazySinkHalf<Fut, St, Si, Item, Error> as Sink<Item>>::poll_flush|missing:self.state.?borrow_mut.sink": _SM + " Uninit returns Ready(Ok) lazily (nothing was sent).",
        "C14.finalize|sinktools|<LazySinkHalf<Fut, St, Si, Item, Error> as Sink<Item>>::poll_close|missing:self.state.?borrow_mut.sink": _SM + " Uninit returns Ready(Ok) lazily (nothing was sent).",
    },
    "C11": {
        "C11.linear|dfir_pipes|<Filter<Prev, Func> as Pull>::pull|dropped:itemx1": "intentional: the predicate rejected the item (filter semantics)",
        "C11.linear|dfir_pipes|<Skip<Prev> as Pull>::pull|dropped:itemx1": "intentional: one of the first n items is skipped (skip semantics)",
        "C11.linear|dfir_pipes|<SkipWhile<Prev, Func> as Pull>::pull|dropped:itemx1": "intentional: the predicate still holds, the item is skipped (skip_while semantics)",
        "C11.linear|dfir_pipes|<TakeWhile<Prev, Func> as Pull>::pull|dropped:itemx1": "intentional: the first item failing the predicate terminates the stream and is discarded (take_while semantics, same as Iterator::take_while)",
        "C11.linear|dfir_pipes|<SymmetricHashJoin<Lhs, Rhs, LhsState, RhsState, LhsStateInner, RhsStateInner> as Pull>::pull|dropped:kx4": "intentional: build() stores a clone of the key and the probe works by reference; the pulled tuple itself is consumed by reference",
        "C11.linear|dfir_pipes|<SymmetricHashJoin<Lhs, Rhs, LhsState, RhsState, LhsStateInner, RhsStateInner> as Pull>::pull|dropped:v1x2": "intentional: build() stores Cow::Borrowed(&v1) by cloning; the pulled value is consumed by reference",
        "C11.linear|dfir_pipes|<SymmetricHashJoin<Lhs, Rhs, LhsState, RhsState, LhsStateInner, RhsStateInner> as Pull>::pull|dropped:v2x2": "intentional: build() stores Cow::Borrowed(&v2) by cloning; the pulled value is consumed by reference",
    },
    "C12": {
        "C12.linear|dfir_pipes|<Filter<Next, Func> as Push<Item, Meta>>::start_send|dropped:itemx1": "intentional: the predicate rejected the item (filter semantics)",
        "C12.linear|dfir_pipes|<StatePush<Item, MappingFn, ItemsPsh, StatePsh, Lat> as Push<Item, ()>>::start_send|dropped:itemx1": "intentional: only items whose merge changed the state are forwarded (documented on StatePush)",
    },
    "C15": {
        "C15.linear|hydro_deploy_integration|<MergeSource<T, S> as Stream>::poll_next|dropped:outx1": "statically reachable, dynamically infeasible: `out` is dropped only on the `sources.is_empty()` return, and a source that has just yielded an item is still in `sources` (only sources that reported Ready(None) are removed)",
    },
    "C01": {
        "C01.used|lattices|<WithTop<Inner> as Merge<WithTop<Other>>>|unused-bound:Inner: LatticeFrom": "superfluous bound, not a skipped conversion: in WithTop `None` is top, so no arm ever has to build an `Inner` from an `Other` ((None,Some)=>stay top, (Some,None)=>become top, (Some,Some)=>nested merge); confirmed by reading with_top.rs",
    },
    "C02": {
        "C02.flagflow|lattices|<DomPair<KeySelf, ValSelf> as Merge<DomPair<KeyOther, ValOther>>>|<DomPair<KeySelf, ValSelf> as Merge<DomPair<KeyOther, ValOther>>>::merge|discarded-flag:Merge::merge": "intentional: in the keys-incomparable arm the key merge is asserted to have changed the key, so the pair changed whatever the value merge reports; the arm returns `true`",
    },
}
