"""C29 — ordered and keyed streams keep their promised order (partial: the type-level encoding is sound w.r.t. the IR it builds)."""
import hydroapi as A
import hydrotypes as H
import mir
from framework import fn_key

LEVEL = "other"

ORDER_TAGS = {"order-created", "exactly-once-created", "needs-total-order", "unordered-output", "chain-order", "join-order", "join-retries"}


def table_rules(ctx, crate, S, which):
    """marker tables: the extension of each marker trait / associated type over its finite domain equals its documented meaning"""
    R = ctx.rule("%s.table" % ctx.prop, "marker-trait tables (impl headers + associated types, evaluated over their finite domains) have exactly their documented meaning", floor=len(which))
    dom = {}
    for tr in ("Ordering", "Retries", "Boundedness"):
        gs, _ = S.ground_selfs(tr)
        dom[tr] = gs
    proofs = [H.parse("hydro_lang::properties::NotProved"), H.parse("hydro_lang::properties::Proved")]
    name = A.gname
    so = lambda n: A.ORDER.get(name(n))
    sr = lambda n: A.RETRY.get(name(n))

    def expect(trait, args, want, why):
        got = S.holds(trait, args)
        key = "hydro_lang|%s<%s>" % (trait, ", ".join(H.show(a) for a in args))
        ctx.inst(R, key, sample={"holds": got, "expected": want})
        if got is not want:
            ctx.violation(R, key, "marker table: `%s: %s<%s>` %s but its meaning (%s) requires it to %s" % (
                H.show(args[0]), trait, ", ".join(H.show(a) for a in args[1:]), "holds" if got else "does not hold (or is undecidable)", why, "hold" if want else "not hold"))

    def expect_ty(trait, selfty, targs, assoc, gargs, want, why):
        n = ("proj", selfty, ("path", trait, tuple(targs)), assoc, tuple(gargs))
        got = name(S.normalize(n))
        key = "hydro_lang|<%s as %s<%s>>::%s<%s>" % (H.show(selfty), trait, ", ".join(H.show(a) for a in targs), assoc, ", ".join(H.show(a) for a in gargs))
        ctx.inst(R, key, sample={"value": got, "expected": want})
        if got != want:
            ctx.violation(R, key, "associated-type table: %s evaluates to %s but its meaning (%s) requires %s" % (key.split("|")[1], got, why, want))

    if "order" in which:
        if len(dom["Ordering"]) < 2 or len(dom["Retries"]) < 2 or len(dom["Boundedness"]) < 2:
            ctx.anchor_missing(R, "Ordering/Retries/Boundedness marker impls")
            return
        for o in dom["Ordering"]:
            if so(o) is None:
                continue
            expect("IsOrdered", [o], so(o) == 1, "implemented exactly by TotalOrder")
            for o2 in dom["Ordering"]:
                if so(o2) is None:
                    continue
                expect("WeakerOrderingThan", [o, o2], so(o) <= so(o2), "O is at most as strong as O2")
                m = "TotalOrder" if min(so(o), so(o2)) == 1 else "NoOrder"
                expect_ty("MinOrder", o, [o2], "Min", [], m, "the meet of the two orderings")
            for b in dom["Boundedness"]:
                want = name(o) if name(b) == "Bounded" else "NoOrder"
                expect_ty("Boundedness", b, [], "PreserveOrderIfBounded", [o], want, "a join keeps the streamed side's order only when the built side is bounded")
        for r in dom["Retries"]:
            if sr(r) is None:
                continue
            expect("IsExactlyOnce", [r], sr(r) == 1, "implemented exactly by ExactlyOnce")
            for r2 in dom["Retries"]:
                if sr(r2) is None:
                    continue
                expect("WeakerRetryThan", [r, r2], sr(r) <= sr(r2), "R is at most as strong as R2")
                m = "ExactlyOnce" if min(sr(r), sr(r2)) == 1 else "AtLeastOnce"
                expect_ty("MinRetries", r, [r2], "Min", [], m, "the meet of the two retry guarantees")
        for b in dom["Boundedness"]:
            expect("IsBounded", [b], name(b) == "Bounded", "implemented exactly by Bounded")
    if "proof" in which:
        for p in proofs:
            for o in dom["Ordering"]:
                if so(o) is None:
                    continue
                expect("ValidCommutativityFor", [p, o], name(p) == "Proved" or so(o) == 1, "an unproved closure is acceptable only on a totally ordered input")
            for r in dom["Retries"]:
                if sr(r) is None:
                    continue
                expect("ValidIdempotenceFor", [p, r], name(p) == "Proved" or sr(r) == 1, "an unproved closure is acceptable only on an exactly-once input")
        # closures that may mutate captured state: WAS_MUT = true is gated like an aggregation; WAS_MUT = false impls must demand `F: Fn`
        opaque = [("path", "opaque::F", ()), ("path", "opaque::In", ()), ("path", "opaque::Out", ())]
        for tr, domk, strength in (("ValidMutCommutativityFor", "Ordering", so), ("ValidMutIdempotenceFor", "Retries", sr),
                                   ("ValidMutBorrowCommutativityFor", "Ordering", so), ("ValidMutBorrowIdempotenceFor", "Retries", sr)):
            if tr not in S.by_trait:
                ctx.anchor_missing(R, tr)
                continue
            for p in proofs:
                for x in dom[domk]:
                    if strength(x) is None:
                        continue
                    expect(tr, [p] + opaque + [x, ("path", "true", ())], name(p) == "Proved" or strength(x) == 1,
                           "a closure that mutates captured state is order/duplication sensitive unless proved otherwise")
            for i in S.by_trait[tr]:
                ta = i.get("trait_args", [])
                if len(ta) >= 6 and ta[5] == "false":
                    fparam = ta[1]
                    ok = any(pr["k"] == "trait" and pr["self"] == fparam and H.last(pr["trait"]) == "Fn" for pr in i["preds"])
                    key = "hydro_lang|%s for %s [WAS_MUT=false]|F: Fn" % (tr, H.show(H.parse(ta[0])))
                    ctx.inst(R, key)
                    if not ok:
                        ctx.violation(R, key, "the WAS_MUT = false impl of %s does not require `F: Fn`: a state-mutating closure would be accepted on an unordered / duplicated input without proof" % tr,
                                      "%s:%s" % (i["file"], i["line"]))


TERMINATING = {"Return": True, "Break": True, "Yield": False, "Continue": False}   # documented meaning of keyed_stream::Generate
SHRINK = ("remove", "remove_entry", "retain", "clear", "drain", "extract_if", "take")


def terminate_rule(ctx, c):
    """KeyedStream::generator keeps one `HashMap<K, Option<A>>` entry per key: absent = key not seen yet (`entry().or_insert_with(init)`), `None` = key has terminated.
    'Per-key results depend only on that key's subsequence' needs (a) no path of the staged closure shrinks the map (a removed entry makes a terminated key start afresh), and
    (b) the two terminating answers (Return, Break) have the same effect on the key's state while Yield/Continue have none (sibling-arm agreement)."""
    R = ctx.rule("C29.terminate", "the staged closure of KeyedStream::generator never shrinks its per-key state map, and the Return and Break arms leave the same tombstone", floor=2)
    bodies = [b for n, b in c.bodies.items() if "keyed_stream::" in n and "::generator::" in n and b.kind != "Promoted"
              and any((cl.get("f") or {}).get("name") == "entry" and "hash::map" in (cl.get("f") or {}).get("def", "") for _i, cl in b.calls())]
    if not bodies:
        ctx.anchor_missing(R, "KeyedStream::generator staged closure (HashMap::entry)")
        return
    adt = c.adts.get("hydro_lang::live_collections::keyed_stream::Generate")
    if adt is None:
        ctx.anchor_missing(R, "enum Generate")
        return
    vnames = [v["name"] for v in adt["variants"]]
    for b in bodies:
        key = "hydro_lang|" + fn_key(c, b)
        # (a) the map is only grown
        shrink = []
        for bb, cl in b.calls():
            f = cl.get("f") or {}
            if f.get("name") in SHRINK and ("hash::map" in f.get("def", "") or "HashMap" in f.get("impl_self", "")):
                shrink.append((f.get("name"), bb))
        ctx.inst(R, key + "|map-only-grows", sites=len(list(b.calls())), sample={"shrinking_calls": shrink})
        for name, bb in shrink:
            ctx.violation(R, key + "|state-map-shrinks|" + name, "the per-key state map is shrunk with `%s`: a key that has terminated is forgotten and its next element starts a fresh "
                          "accumulator (absent entries are initialised by or_insert_with)" % name, b.loc(bb))
        # (b) sibling arms of the match on Generate
        sw = None
        for bb in range(len(b.bbs)):
            t = b.term(bb)
            if t["k"] != "switch":
                continue
            d = mir.op_place(t["d"])
            if d is None:
                continue
            src = None
            for st in b.stmts(bb):
                if "lhs" in st and mir.pl_local(st["lhs"]) == mir.pl_local(d) and st["rv"].get("k") == "discr":
                    src = mir.pl_local(st["rv"]["p"])
                    vnames = [n_ for _i, n_ in sorted(st["rv"].get("variants") or enumerate(vnames))]
            if src is not None and "keyed_stream::Generate<" in b.locals[src]:
                sw = (bb, t)
                break
        if sw is None:
            ctx.anchor_missing(R, "match on Generate in " + key)
            continue
        bb, t = sw
        arms = {}
        for v, tgt in t["ts"]:
            arms[vnames[int(v)]] = tgt
        reach = {n: b.reachable(tgt) for n, tgt in arms.items()}
        effects = {}
        for n, tgt in arms.items():
            others = set()
            for m_, r_ in reach.items():
                if m_ != n:
                    others |= r_
            eff = set()
            for x in sorted(reach[n] - others):
                if b.is_cleanup(x):
                    continue
                tt = b.term(x)
                if tt["k"] == "call" and tt.get("f"):
                    f = tt["f"]
                    slf = f.get("impl_self", "") + f.get("def", "")
                    if "option::Option" in slf and f.get("name") in ("take", "replace", "insert", "get_or_insert_with", "get_or_insert") or "hash::map" in slf:
                        eff.add(f.get("name"))
                for st in b.stmts(x):
                    if "lhs" in st and "*" in mir.pl_str(st["lhs"]) and "Option" in b.locals[mir.pl_local(st["lhs"])]:
                        eff.add("assign-through-state-ref")
            effects[n] = sorted(eff)
        ctx.inst(R, key + "|arms", sites=len(arms), sample={"state_effect_per_arm": effects})
        for n in arms:
            if n not in TERMINATING:
                ctx.violation(R, key + "|unclassified-variant|" + n, "Generate::%s is not classified as terminating / non-terminating in the checker" % n, b.loc(bb))
        term = [n for n in arms if TERMINATING.get(n)]
        for n in term:
            if not effects[n]:
                ctx.violation(R, key + "|no-tombstone|" + n, "the Generate::%s arm does not mark the key's state as terminated" % n, b.loc(arms[n]))
        if len(term) == 2 and effects[term[0]] != effects[term[1]]:
            ctx.violation(R, key + "|terminating-arms-differ", "the two terminating answers treat the key's state differently (%s: %s, %s: %s): whether later elements of the key are processed depends on "
                          "how the key terminated" % (term[0], effects[term[0]], term[1], effects[term[1]]), b.loc(bb))
        for n in arms:
            if TERMINATING.get(n) is False and effects[n]:
                ctx.violation(R, key + "|non-terminating-arm-mutates|" + n, "the Generate::%s arm changes the key's state slot (%s)" % (n, effects[n]), b.loc(arms[n]))


def run(ctx):
    ctx.explanation = ("The ordering/retry guarantees of Hydro streams are a type-level encoding; this check decides that the encoding is sound with respect to the IR the API builds. "
                       "(1) The marker tables (IsOrdered, IsExactlyOnce, IsBounded, MinOrder, MinRetries, WeakerOrderingThan, WeakerRetryThan, Boundedness::PreserveOrderIfBounded) are evaluated "
                       "from the crate's impl headers and associated types over their finite domains and compared with their documented meaning. (2) For every non-test function of "
                       "hydro_lang::live_collections that constructs a HydroNode, every ground instantiation of its ordering/retry/boundedness/proof parameters admitted by its where-clauses "
                       "(decided with the same impl tables, including associated-const-dependent branches such as `B2::BOUNDED`) must satisfy the typing rule of the constructed node: element-wise "
                       "nodes cannot create order or exactly-once, Enumerate/Scan need TotalOrder+ExactlyOnce inputs, future resolution outputs NoOrder, Chain/Join/JoinHalf follow the meet rules, "
                       "public casts never strengthen. A loosened where-clause, marker impl, associated type or output type is reported with the offending instantiation.")
    ctx.undecided = "the run-time order of emitted elements (that each DFIR operator really preserves the order its IR node promises) is not decided; per-key independence is not decided"
    ctx.assumptions.append("node typing rules are stated from the documented semantics of HydroNode variants; keyed joins (per-key order) are only constrained on retries")
    c = mir.load_crate("hydro_lang")
    S = H.Solver(c)
    table_rules(ctx, c, S, {"order"})
    R = ctx.rule("C29.node", "every admitted instantiation of every HydroNode-constructing API function satisfies the ordering/retry typing rule of the node it builds", floor=120)
    total = 0
    for s in A.sites(c, S):
        n, bad = A.check_site(s)
        total += n
        key = "hydro_lang|%s|%s" % (fn_key(c, c.bodies[s.root]) if s.root in c.bodies else s.root, s.variant)
        ctx.inst(R, key, nontrivial=n > 0, sites=n, sample={"instantiations": n, "fn": s.root, "at": "%s:%s" % (s.fn["file"], s.fn["line"])})
        seen = set()
        for tag, extra, inst in bad:
            if tag not in ORDER_TAGS or (tag, extra) in seen:
                continue
            seen.add((tag, extra))
            ctx.violation(R, key + "|" + tag + ("|" + extra if extra else ""), "%s [%s] — admitted instantiation: %s" % (A.RULE_TEXT[tag], extra, inst), "%s:%s" % (s.fn["file"], s.fn["line"]),
                          {"instantiation": inst})
    ctx.extra["instantiations_checked"] = total
    terminate_rule(ctx, c)

    if ctx.tier == "thorough":
        # independent cross-check of the solver by the real type checker: compile-fail witnesses with compiling twins
        import witness
        witness.check(ctx, "C29")
