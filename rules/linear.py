"""LINEAR rule: an item bound out of an upstream result is moved onward on every path (never dropped, never overwritten).

May-ownership forward dataflow on drop-elaborated MIR: a remaining `drop(x)` of a local that may still own an upstream
item means some path discards the item."""
from mir import op_place, pl_local, pl_projs, forward_dataflow, pl_str

SOURCE_METHODS = {
    ("dfir_pipes::pull::Pull", "pull"),
    ("futures_core::stream::Stream", "poll_next"),
    ("core::iter::traits::iterator::Iterator", "next"),
    ("core::future::future::Future", "poll"),
}

TRIVIAL_TYPES = ("bool", "()", "usize", "u8", "u16", "u32", "u64", "u128", "i8", "i16", "i32", "i64", "isize", "char", "!", "f32", "f64")


def trivially_droppable(ty):
    return ty in TRIVIAL_TYPES or ty.startswith("&") or ty.startswith("*") or ty.startswith("core::cmp::Ordering")


def closure_returns_upstream(crate, cdef):
    cb = crate.bodies.get(cdef) if crate is not None else None
    if cb is None:
        return False
    for bb, t in cb.calls():
        f = t.get("f")
        if f and (f.get("trait"), f["name"]) in SOURCE_METHODS and t.get("dst") == 0:
            return True
    return False


def upstream_result_locals(body, crate=None):
    out = {}
    for bb, t in body.calls():
        f = t.get("f")
        if not f or not isinstance(t.get("dst"), int):
            continue
        if (f.get("trait"), f["name"]) in SOURCE_METHODS:
            out[t["dst"]] = (bb, f["name"])
        elif f["name"] in ("unwrap_or_else", "or_else", "map_or_else") and crate is not None:
            for a in t["a"][1:]:
                p = op_place(a)
                if isinstance(p, int) and body.locals[p].startswith("closure#") and closure_returns_upstream(crate, body.locals[p][8:]):
                    out[t["dst"]] = (bb, "closure:" + f["name"])
    return out


STATE_TAKE_DEFS = ("core::option::{impl#0}::take", "core::mem::take", "core::mem::replace", "core::option::{impl#0}::replace")


def state_take_locals(body):
    """locals receiving a value taken out of the adaptor's own state: Option::take / mem::take / mem::replace whose receiver points into `self`"""
    import proto
    if body.kind == "Closure":
        return {}
    org = proto.Origins(body)
    out = {}
    for bb, t in body.calls():
        f = t.get("f")
        if not f or not isinstance(t.get("dst"), int) or not t["a"]:
            continue
        if f["def"] not in STATE_TAKE_DEFS and not (f["name"] in ("take", "replace") and f["def"].startswith("core::")):
            continue
        p = op_place(t["a"][0])
        if p is None:
            continue
        root, path = org.origin_place(p)
        if root == 1 and not trivially_droppable(body.locals[t["dst"]]):
            out[t["dst"]] = (bb, "state:" + ".".join(str(x) for x in path))
    return out


def item_seeds(body, crate=None, state_takes=False):
    """(bb, stmt_index, local) where an item is bound out of an upstream result"""
    ups = upstream_result_locals(body, crate)
    if state_takes:
        for l, v in state_take_locals(body).items():
            ups.setdefault(l, v)
    seeds = []
    # propagate "is (part of) an upstream result" through whole-value moves, so `match (a, b)` tuples are covered
    res_like = dict(ups)
    changed = True
    while changed:
        changed = False
        for bb, i, lhs, rv in body.assignments():
            if not isinstance(lhs, int) or lhs in res_like:
                continue
            if rv["k"] == "use":
                p = op_place(rv["ops"][0])
                if isinstance(p, int) and p in res_like and "mv" in rv["ops"][0]:
                    res_like[lhs] = res_like[p]
                    changed = True
            elif rv["k"] == "agg" and rv["agg"] == "tuple":
                for o in rv["ops"]:
                    p = op_place(o)
                    if isinstance(p, int) and p in res_like and "mv" in o:
                        res_like[lhs] = res_like[p]
                        changed = True
            elif rv["k"] == "agg" and rv["agg"] == "adt" and (rv.get("adt") or {}).get("variant") == "Some":
                for o in rv["ops"]:
                    p = op_place(o)
                    if isinstance(p, int) and p in res_like and "mv" in o:
                        res_like[lhs] = res_like[p]
                        changed = True
        # unwrap_or_else / unwrap of an Option<upstream result>
        for bb, t in body.calls():
            f = t.get("f")
            if f and f["name"] in ("unwrap_or_else", "unwrap", "expect", "unwrap_or") and isinstance(t.get("dst"), int) and t["dst"] not in res_like and t["a"]:
                p = op_place(t["a"][0])
                if isinstance(p, int) and p in res_like:
                    res_like[t["dst"]] = res_like[p]
                    changed = True
    unwrapped = set()
    if state_takes:
        # `let (a, b) = self.buf.take().unwrap();` : the unwrap result is the payload itself
        for bb, t in body.calls():
            f = t.get("f")
            if f and f["name"] in ("unwrap", "expect", "unwrap_unchecked") and isinstance(t.get("dst"), int) and t["a"]:
                p = op_place(t["a"][0])
                if isinstance(p, int) and p in res_like and str(res_like[p][1]).startswith("state:"):
                    unwrapped.add(t["dst"])
    for bb, i, lhs, rv in body.assignments():
        if body.is_cleanup(bb) or not isinstance(lhs, int):
            continue
        if rv["k"] != "use" or "mv" not in rv["ops"][0]:
            continue
        p = rv["ops"][0]["mv"]
        if isinstance(p, int):
            continue
        projs = pl_projs(p)
        if pl_local(p) in res_like and any(pr.startswith("@") for pr in projs) and projs[-1].startswith("."):
            if not trivially_droppable(body.locals[lhs]):
                seeds.append((bb, i, lhs))
        elif pl_local(p) in unwrapped and projs and all(pr.startswith(".") for pr in projs):
            if not trivially_droppable(body.locals[lhs]):
                seeds.append((bb, i, lhs))
    return seeds, res_like


def pending_blocks(body):
    """non-cleanup blocks that set the return place to a Pending value"""
    out = []
    for bb, t in body.calls():
        f = t.get("f")
        if f and f["name"] == "pending" and t.get("dst") == 0:
            out.append(bb)
    for bb, i, lhs, rv in body.assignments():
        if lhs == 0 and rv["k"] == "agg" and (rv.get("adt") or {}).get("variant") == "Pending" and not body.is_cleanup(bb):
            out.append(bb)
    return out


def analyse(body, params=(), exempt_locals=(), crate=None, state_takes=False, only_on_pending=False):
    """returns (seed_count, findings) ; finding = (kind, local, bb).
    only_on_pending: report a drop only if it lies on a path after the return value was set to Pending"""
    seeds, res_like = item_seeds(body, crate, state_takes=state_takes)
    pend_reach = None
    if only_on_pending:
        pend_reach = set()
        for pb in pending_blocks(body):
            pend_reach |= body.reachable(pb)
    seed_at = {}
    for bb, i, l in seeds:
        seed_at.setdefault(bb, []).append((i, l))
    findings = []
    seen = set()

    def transfer(bb, owned, report=False):
        owned = set(owned)
        stmts = body.stmts(bb)
        for i, s in enumerate(stmts):
            if "lhs" in s:
                lhs, rv = s["lhs"], s["rv"]
                moved = []
                for o in rv.get("ops", []):
                    if "mv" in o:
                        p = o["mv"]
                        if pl_local(p) in owned:
                            moved.append(p)
                for p in moved:
                    if isinstance(p, int) or not any(pr.startswith(".") for pr in pl_projs(p)):
                        owned.discard(pl_local(p))
                if moved and isinstance(lhs, int) and lhs != 0 and not trivially_droppable(body.locals[lhs]):
                    owned.add(lhs)
                for (si, l) in seed_at.get(bb, []):
                    if si == i:
                        owned.add(l)
        t = body.term(bb)
        if t["k"] == "call":
            passed = False
            for a in t["a"]:
                if "mv" in a:
                    p = a["mv"]
                    if pl_local(p) in owned and (isinstance(p, int) or not any(pr.startswith(".") for pr in pl_projs(p))):
                        owned.discard(pl_local(p))
                        passed = True
            d = t.get("dst")
            if passed and isinstance(d, int) and d != 0 and not trivially_droppable(body.locals[d]):
                owned.add(d)
        elif t["k"] == "drop":
            p = t["p"]
            l = pl_local(p)
            if l in owned and isinstance(p, int):
                if report and (l, bb) not in seen and l not in exempt_locals and (pend_reach is None or bb in pend_reach):
                    seen.add((l, bb))
                    findings.append(("dropped", l, bb))
                owned.discard(l)
        elif t["k"] == "yield":
            pass
        out = {}
        for lbl, tgt in body.succ_edges(bb):
            out[tgt] = frozenset(owned)
        return out

    init = frozenset(params)
    states = forward_dataflow(body, init, lambda bb, st: transfer(bb, st), lambda a, b: a | b)
    for bb in sorted(states):
        if not body.is_cleanup(bb):
            transfer(bb, states[bb], report=True)
    return len(seeds) + len(params), findings
