"""C27 — no missed wake-up between the runner and external events (ordering rules on the flag + AtomicWaker pattern)."""
import mir
from framework import fn_key
from mir import op_place, pl_local
from util import place_has_field, derives_field, calls_on_field

LEVEL = "other"
FLAG = {"can_start_tick"}
WAKER = {"task_waker"}
TICK_CALLS = ("run_tick", "run_tick_sync", "call_tick")


def const_arg(t, i):
    if len(t["a"]) > i and "c" in t["a"][i]:
        return t["a"][i]["c"]
    return None


def tick_blocks(b):
    return set(bb for bb, t in b.calls() if t.get("f") and t["f"]["name"] in TICK_CALLS)


def run(ctx):
    ctx.explanation = ("The runner uses the classical flag + AtomicWaker protocol. Its proof obligations are ordering facts about a handful of call sites, decided on the MIR "
                       "(dominators / must-pass-through, all paths; async fns on their pre-lowering coroutine MIR): wake = store(true) before AtomicWaker::wake; "
                       "idle = register before load, Pending only after register; every clear of the flag is followed by a tick or its old value decides one.")
    ctx.undecided = "memory-ordering strength (Relaxed is the repo's choice; AtomicWaker provides the acquire/release edge), executor behaviour"
    ctx.assumptions = ["futures::task::AtomicWaker's documented contract", "the flag and waker fields are private to dfir_rs::scheduled::context (enforced by rustc)"]
    c = mir.load_crate("dfir_rs")
    bodies = [b for d, b in sorted(c.bodies.items()) if not c.is_test_path(d)]

    R_WAKE = ctx.rule("C27.wake", "every function that calls AtomicWaker::wake on task_waker has stored `true` into the flag on every path before it "
                      "(the store dominates the wake)", floor=1)
    R_IDLE = ctx.rule("C27.idle", "every AtomicWaker::register on task_waker dominates the flag load that decides idling, and every Pending return passes through register", floor=1)
    R_CLEAR = ctx.rule("C27.clear", "every operation that clears the flag is followed on all paths by a tick, or is a swap whose old value decides a branch whose "
                       "true edge leads to a tick on all paths / flows into the function result", floor=4)

    for b in bodies:
        key = "dfir_rs|" + fn_key(c, b)
        wakes = [bb for bb in calls_on_field(b, {"wake"}, WAKER)]
        regs = [bb for bb in calls_on_field(b, {"register"}, WAKER)]
        flag_ops = {}
        for name in ("store", "swap", "load", "fetch_and", "fetch_or", "fetch_xor", "fetch_nand", "compare_exchange", "compare_exchange_weak", "fetch_update", "get_mut", "into_inner"):
            for bb in calls_on_field(b, {name}, FLAG):
                flag_ops[bb] = name
        # ---- wake
        if wakes:
            sets = [bb for bb, n in flag_ops.items() if n == "store" and const_arg(b.term(bb), 1) == "true"]
            ctx.inst(R_WAKE, key, sites=len(wakes), sample={"function": b.def_path, "store_true_blocks": sets, "wake_blocks": wakes, "file": b.loc()})
            for wb in wakes:
                if not any(b.dominates(s, wb) and s != wb for s in sets):
                    ctx.violation(R_WAKE, key + "|wake-before-set", "task_waker.wake() is not dominated by can_start_tick.store(true): the woken runner may read the flag "
                                  "as false and go back to sleep (lost wake-up)", b.loc(wb))
        # ---- idle
        if regs:
            loads = [bb for bb, n in flag_ops.items() if n == "load"]
            pend = [bb for bb, i, lhs, rv in b.assignments() if rv["k"] == "agg" and (rv.get("adt") or {}).get("def") == "core::task::poll::Poll"
                    and rv["adt"]["variant"] == "Pending" and not b.is_cleanup(bb)]
            ctx.inst(R_IDLE, key, sites=len(regs) + len(loads), sample={"function": b.def_path, "register_blocks": regs, "load_blocks": loads, "pending_blocks": pend})
            if not loads:
                ctx.violation(R_IDLE, key + "|no-load", "the idle future registers the waker but never re-checks the flag afterwards", b.loc())
            for lb in loads:
                if not any(b.dominates(r, lb) and r != lb for r in regs):
                    ctx.violation(R_IDLE, key + "|load-before-register", "the flag is read before the task waker is registered: an event firing between the read and the "
                                  "registration is lost (the runner sleeps although work arrived)", b.loc(lb))
            for pb in pend:
                ok, _ = b.all_paths_pass(set(regs), {pb})
                if not ok:
                    ctx.violation(R_IDLE, key + "|pending-without-register", "Poll::Pending is returned on a path that did not register the task waker", b.loc(pb))
        # ---- clear
        ticks = tick_blocks(b)
        rets = set(b.returns())
        for bb, name in sorted(flag_ops.items()):
            t = b.term(bb)
            if name == "load" or (name == "store" and const_arg(t, 1) == "true") or (name == "fetch_or"):
                continue
            if name in ("store", "swap") and const_arg(t, 1) == "false":
                ikey = "%s|%s" % (key, name)
                ctx.inst(R_CLEAR, ikey, sample={"function": b.def_path, "op": name, "at": b.loc(bb), "tick_call_blocks": sorted(ticks)})
                ok_all = all(b.all_paths_pass(ticks, rets, start=s)[0] for s in b.succs(bb))
                if ok_all:
                    continue
                if name == "swap":
                    dst = t.get("dst")
                    if decides_tick(b, dst, ticks, rets) or flows_to_return(b, dst):
                        continue
                ctx.violation(R_CLEAR, ikey + "|clear-without-tick", "the flag is cleared (%s(false)) and a path reaches return / idle without running a tick and without the "
                              "old value deciding one: an event that arrived just before the clear is forgotten" % name, b.loc(bb))
            else:
                ctx.inst(R_CLEAR, "%s|%s" % (key, name))
                ctx.violation(R_CLEAR, "%s|unrecognised-flag-write:%s" % (key, name), "unrecognised mutating access to the flag (%s); the clear/tick pairing cannot be established" % name, b.loc(bb))


def copies_of(b, local):
    """locals that are plain copies of `local`"""
    out = {local}
    changed = True
    while changed:
        changed = False
        for bb, i, lhs, rv in b.assignments():
            if isinstance(lhs, int) and lhs not in out and rv["k"] == "use":
                p = op_place(rv["ops"][0])
                if isinstance(p, int) and p in out:
                    out.add(lhs)
                    changed = True
    return out


def decides_tick(b, dst, ticks, rets):
    if not isinstance(dst, int):
        return False
    cs = copies_of(b, dst)
    for sb in range(b.n):
        t = b.term(sb)
        if t["k"] != "switch":
            continue
        dp = op_place(t["d"])
        if isinstance(dp, int) and dp in cs:
            # bool switch: `otherwise` edge = true
            tgt = t["o"]
            ok, _ = b.all_paths_pass(ticks, rets, start=tgt)
            if ok:
                return True
    return False


def flows_to_return(b, dst):
    """the old value is (part of) the function's result: it reaches _0 through copies / a short-circuit chain"""
    if not isinstance(dst, int):
        return False
    cs = copies_of(b, dst)
    if 0 in cs:
        return True
    # `a || b || c`: switch on the value, whose true edge assigns const true to _0
    for sb in range(b.n):
        t = b.term(sb)
        if t["k"] == "switch":
            dp = op_place(t["d"])
            if isinstance(dp, int) and dp in cs:
                tgt = t["o"]
                for s in b.stmts(tgt):
                    if s.get("lhs") == 0 and s["rv"]["k"] == "use" and s["rv"]["ops"][0].get("c") == "true":
                        return True
    return False
