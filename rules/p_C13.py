"""C13 — symmetric hash join (partial: build/probe wiring of the incremental path, drain of stored matches, state reset)."""
import guards
import mir
import proto
from framework import fn_key
from mir import op_place, pl_local, pl_projs, pl_fields
from p_C11 import upstream_of_results, variant_edges_by_place

LEVEL = "other"


def state_of(org, b, place):
    """which join-state field of self a receiver points into ('lhs_state' / 'rhs_state' / ...), following borrow_mut() results"""
    if place is None:
        return None
    root, path = org.origin_place(place)
    if root != 1:
        return None
    for x in path:
        xs = str(x)
        if xs.endswith("_state"):
            return xs
    return ".".join(str(x) for x in path)


def run(ctx):
    ctx.explanation = ("Necessary structure of `emits each matching pair exactly once` on the incremental path SymmetricHashJoin::pull (MIR, all paths): an item that arrives on one side is "
                       "*built* into that side's own state and *probed* against the other side's state, and the probe happens only on the `newly built` edge of build() (a duplicate under set "
                       "semantics must not produce pairs again); matches stored by an earlier probe are drained from BOTH states (pop_match) before any upstream is polled and a popped match "
                       "is returned, not dropped; the emitted tuple takes its left value from the left side in all four return sites. HalfJoinState::clear of both state implementations "
                       "resets every field (table, stored matches, length).")
    ctx.undecided = ("multiset equality of the emitted pairs over all interleavings (value-level); that probe() stores all but the first match and returns the first; the drain-then-enumerate "
                     "path (NewTickJoinIter) equals the incremental path")
    c = mir.load_crate("dfir_pipes")
    tickdrain_rule(ctx, c)
    impls = [i for i in c.impls_of_trait("pull::Pull") if "symmetric_hash_join::SymmetricHashJoin<" in i["self"]]
    R = ctx.rule("C13.wiring", "each side's items are built into their own state and probed against the other state, only when newly built", floor=2)
    RD = ctx.rule("C13.drain", "stored matches of both states are popped before any upstream is polled, and a popped match is returned", floor=2)
    RO = ctx.rule("C13.orient", "every returned pair takes the left value from the left side and the right value from the right side", floor=4)
    if not impls:
        ctx.anchor_missing(R, "impl Pull for SymmetricHashJoin")
        return
    b = c.impl_method(impls[0], "pull")
    org = proto.Origins(b)
    key = "dfir_pipes|" + fn_key(c, b)
    ups = upstream_of_results(b, c)                      # (local, projs) -> 'Lhs' / 'Rhs'
    ready_edges = variant_edges_by_place(b, "Ready")
    calls = {}
    for bb, t in b.calls():
        f = t.get("f")
        if f and f["name"] in ("build", "probe", "pop_match") and t["a"] and not b.is_cleanup(bb):
            calls.setdefault(f["name"], []).append((bb, state_of(org, b, op_place(t["a"][0])), t))
    pulls = [(bb, t["f"].get("self")) for bb, t in b.calls() if t.get("f") and (t["f"].get("trait"), t["f"]["name"]) == ("dfir_pipes::pull::Pull", "pull") and not b.is_cleanup(bb)]
    side_state = {"Lhs": "lhs_state", "Rhs": "rhs_state"}
    other = {"Lhs": "rhs_state", "Rhs": "lhs_state"}
    G = guards.Guards(b, {"build"})
    for k, up in sorted(ups.items(), key=lambda x: str(x)):
        if up not in side_state:
            continue
        tg = ready_edges.get(k)
        if not tg:
            continue
        ikey = "%s|%s" % (key, up)
        builds = [(bb, st) for bb, st, t in calls.get("build", []) if any(b.dominates(x, bb) for x in tg)]
        probes = [(bb, st) for bb, st, t in calls.get("probe", []) if any(b.dominates(x, bb) for x in tg)]
        ctx.inst(R, ikey, sites=len(builds) + len(probes), sample={"ready_edge_targets": sorted(tg), "build": builds, "probe": probes})
        if len(builds) != 1 or builds[0][1] != side_state[up]:
            ctx.violation(R, ikey + "|build", "an item arriving on %s is not built into %s exactly once (build calls on that path: %s)" % (up, side_state[up], builds), b.loc())
        if len(probes) != 1 or probes[0][1] != other[up]:
            ctx.violation(R, ikey + "|probe", "an item arriving on %s is not probed against %s exactly once (probe calls on that path: %s)" % (up, other[up], probes), b.loc())
        for pb, st in probes:
            if ("build", True) not in G.guards_of(pb):
                ctx.violation(R, ikey + "|probe-without-new-build", "the probe for an arriving %s item is not confined to the `newly built` edge of build(): an item that is a duplicate under set "
                              "semantics would emit its pairs again" % up, b.loc(pb))
    if not any(u in side_state for u in ups.values()):
        ctx.anchor_missing(R, "upstream pull results in SymmetricHashJoin::pull")
    # ---- drain
    pops = calls.get("pop_match", [])
    states = sorted(set(st for _bb, st, _t in pops))
    ctx.inst(RD, key + "|pop_match", sites=len(pops), sample={"states": states, "pull_blocks": [p for p, _ in pulls]})
    for want in ("lhs_state", "rhs_state"):
        mine = [bb for bb, st, _t in pops if st == want]
        if not mine:
            ctx.violation(RD, key + "|no-drain:" + want, "stored matches of %s are never popped: pairs found by an earlier probe beyond the first are lost" % want, b.loc())
            continue
        for pb, _u in pulls:
            if not any(b.dominates(m, pb) for m in mine):
                ctx.violation(RD, key + "|poll-before-drain:" + want, "an upstream is polled on a path that has not first drained the stored matches of %s" % want, b.loc(pb))
    # popped Some(..) flows to a Ready return: the Some edge of each pop reaches a block assigning _0 = Ready before looping/polling
    some_edges = variant_edges_by_place(b, "Some")
    for bb, st, t in pops:
        d = t.get("dst")
        tg = some_edges.get((d, ())) if isinstance(d, int) else None
        ok = False
        for x in (tg or ()):
            for rb, i, lhs, rv in b.assignments():
                if lhs == 0 and rv["k"] == "agg" and (rv.get("adt") or {}).get("variant") == "Ready" and b.dominates(x, rb):
                    ok = True
        ctx.inst(RD, key + "|pop-returned:%s" % st)
        if not ok:
            ctx.violation(RD, key + "|popped-match-dropped:%s" % st, "a match popped from %s is not returned as Ready" % st, b.loc(bb))
    # ---- orientation: in every `_0 = Ready((k, (v1, v2)), ())` the pair's first component comes from a value tied to the left side
    n = 0
    for rb, i, lhs, rv in b.assignments():
        if lhs != 0 or rv["k"] != "agg" or (rv.get("adt") or {}).get("variant") != "Ready" or b.is_cleanup(rb):
            continue
        item = op_place(rv["ops"][0])
        comps = _tuple_leaves(b, item)
        if comps is None or len(comps) != 3:
            continue
        n += 1
        src = [_payload_source(b, org, x) for x in comps]      # (producer call name, state, component index)
        ok = None
        # comps = [k, v1, v2]; a probe/pop on the RIGHT state yields (k, probe_val, build_val) = (k, v_left, v_right): v1 <- .1, v2 <- .2
        # a probe/pop on the LEFT state yields (k, v_right, v_left): v1 <- .2, v2 <- .1
        if src[1] and src[2] and src[1][1] == src[2][1]:
            st = src[1][1]
            if st == "rhs_state":
                ok = src[1][2] == 1 and src[2][2] == 2
            elif st == "lhs_state":
                ok = src[1][2] == 2 and src[2][2] == 1
        ctx.inst(RO, "%s|return@%d" % (key, n), sample={"components": src})
        if ok is False:
            ctx.violation(RO, "%s|swapped-pair@%d" % (key, n), "a returned pair takes its left value from the right side's data (components %s)" % (src,), b.loc(rb))
        elif ok is None:
            ctx.violation(RO, "%s|unresolved-pair@%d" % (key, n), "cannot trace the components of a returned pair to a probe/pop result (fail closed): %s" % (src,), b.loc(rb))
    # ---- clear resets every field
    RC = ctx.rule("C13.clear", "HalfJoinState::clear resets every field of the state (table, stored matches, length)", floor=2)
    for i in c.impls_of_trait("half_join_state::HalfJoinState"):
        cb = c.impl_method(i, "clear")
        adt = c.adts.get(i.get("self_adt") or "")
        if cb is None or adt is None:
            continue
        k2 = "dfir_pipes|" + fn_key(c, cb)
        fields = [f["name"] for v in adt["variants"] for f in v["fields"] if "PhantomData" not in f["ty"]]
        touched = set()
        for bb, t in cb.calls():
            for a in t["a"][:1]:
                p = op_place(a)
                if p is not None:
                    for db, idx, rv in cb.defs_of(pl_local(p)):
                        if idx != "term" and rv["k"] in ("ref", "refmut"):
                            touched.update(pl_fields(rv["p"]))
        for bb, i2, lhs, rv in cb.assignments():
            if not isinstance(lhs, int):
                touched.update(pl_fields(lhs))
        ctx.inst(RC, k2, sites=len(fields), sample={"fields": fields, "touched": sorted(touched)})
        for f in fields:
            if f not in touched:
                ctx.violation(RC, k2 + "|field-not-reset:" + f, "clear() leaves field `%s` untouched: state from the previous tick survives a 'tick reset" % f, cb.loc())


def _tuple_leaves(b, place, depth=0):
    """flatten `(k, (v1, v2))` built from locals into its leaf locals"""
    if not isinstance(place, int) or depth > 4:
        return None
    defs = b.defs_of(place)
    if len(defs) != 1 or defs[0][1] == "term":
        return [place]
    rv = defs[0][2]
    if rv["k"] == "agg" and rv["agg"] == "tuple":
        out = []
        for o in rv["ops"]:
            p = op_place(o)
            sub = _tuple_leaves(b, p, depth + 1) if isinstance(p, int) else None
            out += sub if sub else [p]
        return out
    if rv["k"] == "use":
        p = op_place(rv["ops"][0])
        if isinstance(p, int):
            return _tuple_leaves(b, p, depth)
    return [place]


def _payload_source(b, org, local, depth=0):
    """(call name, state field, tuple index) when the local is component `index` of the Some payload of a probe/pop_match result"""
    if not isinstance(local, int) or depth > 6:
        return None
    for bb, idx, rv in b.defs_of(local):
        if idx == "term":
            continue
        if rv["k"] == "use":
            p = op_place(rv["ops"][0])
            if p is None:
                continue
            if isinstance(p, int):
                r = _payload_source(b, org, p, depth + 1)
                if r:
                    return r
                continue
            projs = pl_projs(p)
            if any(pr.startswith("@Some") for pr in projs):
                comp = None
                for pr in projs:
                    if pr.startswith(".") and pr[1:].split(":")[0].isdigit():
                        comp = int(pr[1:].split(":")[0])
                base = pl_local(p)
                for db, didx, t in b.defs_of(base):
                    if didx == "term" and t["k"] == "call" and t.get("f") and t["f"]["name"] in ("probe", "pop_match"):
                        return (t["f"]["name"], state_of(org, b, op_place(t["a"][0])), comp)
    return None


def tickdrain_rule(ctx, c):
    """At the start of a tick the join drains both inputs into their states (`drain_pull_into_state`) before it emits anything. 'Pairs exactly once for every
    interleaving, including pending steps' needs that drain to finish only when the input has *ended*: its future answers Poll::Ready(()) only on the Ended arm of
    the pull result, and a Pending step is passed on as Poll::Pending (the rest of the tick's items arrive after the wake-up)."""
    R = ctx.rule("C13.tickdrain", "drain_pull_into_state completes only on the Ended arm of the input's pull; a Pending step yields Poll::Pending", floor=1)
    bs = [b for n, b in c.bodies.items() if "symmetric_hash_join::drain_pull_into_state::{closure" in n and b.kind != "Promoted"
          and any((t.get("f") or {}).get("name") == "pull" for _bb, t in b.calls())]
    if not bs:
        ctx.anchor_missing(R, "drain_pull_into_state's poll closure")
        return
    for b in bs:
        key = "dfir_pipes|" + fn_key(c, b)
        ended = variant_edges_by_place(b, "Ended")
        pending = variant_edges_by_place(b, "Pending")
        ended_t = set(x for v in ended.values() for x in v)
        pending_t = set(x for v in pending.values() for x in v)
        ready_ret = []
        pending_ret = []
        for bb, i, lhs, rv in b.assignments():
            if lhs == 0 and rv["k"] == "agg" and (rv.get("adt") or {}).get("def", "").endswith("task::poll::Poll") and not b.is_cleanup(bb):
                (ready_ret if rv["adt"].get("variant") == "Ready" else pending_ret).append(bb)
        ctx.inst(R, key, sites=len(ready_ret) + len(pending_ret), sample={"ended_targets": sorted(ended_t), "pending_targets": sorted(pending_t), "ready_returns": ready_ret, "pending_returns": pending_ret})
        if not ended_t or not ready_ret:
            ctx.violation(R, key + "|no-ended-arm", "the drain does not distinguish the Ended answer of its input (no Ended arm or no Poll::Ready return)", b.loc())
            continue
        for rb in ready_ret:
            if not any(b.dominates(e, rb) for e in ended_t):
                ctx.violation(R, key + "|completes-without-ended", "the drain's future can complete (Poll::Ready) on a path that does not come from the Ended arm of the input's pull - a Pending step "
                              "ends the drain, later items of the tick are neither stored nor joined", b.loc(rb))
        for pt in pending_t:
            ok, w = b.all_paths_pass(set(pending_ret), set(b.returns()), start=pt)
            if not pending_ret or not ok:
                ctx.violation(R, key + "|pending-not-propagated", "a Pending step of the input does not make the drain's future return Poll::Pending", b.loc(pt))
