"""Branch-guard analysis on MIR: which boolean-returning calls decided (by which edge) that a block executes."""
from mir import op_place, op_const, pl_local


def const_of(body, op, depth=0):
    """follow copies / reborrows of a local back to a constant operand; returns the constant's text or None"""
    if op is None:
        return None
    c = op_const(op)
    if c is not None:
        return str(c)
    p = op_place(op)
    if p is None or depth > 6:
        return None
    defs = body.defs_of(pl_local(p))
    if len(defs) != 1 or defs[0][1] == "term":
        return None
    rv = defs[0][2]
    if rv["k"] in ("use", "cast"):
        return const_of(body, rv["ops"][0], depth + 1)
    if rv["k"] in ("ref", "refmut", "rawptr"):
        return const_of(body, {"cp": pl_local(rv["p"])}, depth + 1)
    return None


class Guards:
    """for a body: bool locals derived from results of named calls, and the switches on them"""

    def __init__(self, body, callee_names):
        self.b = body
        self.names = set(callee_names)
        self._derived = {}
        self.switches = []     # (switch bb, name set, true target, false target)
        for sb in range(body.n):
            t = body.term(sb)
            if t["k"] != "switch" or body.is_cleanup(sb):
                continue
            dp = op_place(t["d"])
            if not isinstance(dp, int):
                continue
            ns = self.derived(dp)
            if not ns:
                continue
            zero = [tgt for v, tgt in t["ts"] if v == 0]
            if len(t["ts"]) == 1 and zero:
                self.switches.append((sb, ns, t["o"], zero[0]))

    def derived(self, local, depth=0):
        """set of callee names such that `local == true` implies each of those calls returned true (conjunctions via `&&` lowering:
        every definition is either `const false` or a value derived from such a call)"""
        if local in self._derived:
            return self._derived[local]
        self._derived[local] = frozenset()
        if depth > 8:
            return frozenset()
        defs = self.b.defs_of(local)
        acc = None
        for bb, idx, rv in defs:
            if idx == "term":
                f = rv.get("f")
                s = frozenset([f["name"]]) if rv["k"] == "call" and f and f["name"] in self.names else frozenset()
                if not s:
                    acc = frozenset()
                    break
            else:
                if rv["k"] == "use":
                    c = op_const(rv["ops"][0])
                    if c is not None:
                        if str(c) == "false":
                            continue   # a `false` definition does not weaken "true implies"
                        acc = frozenset()
                        break
                    p = op_place(rv["ops"][0])
                    s = self.derived(pl_local(p), depth + 1) if isinstance(p, int) else frozenset()
                    if not s:
                        acc = frozenset()
                        break
                else:
                    acc = frozenset()
                    break
            acc = s if acc is None else (acc | s if False else acc & s if len(defs) > 1 and False else acc | s)
        res = acc or frozenset()
        # a local with several non-false definitions is true if ANY of them is: keep only names common to all
        nonfalse = []
        for bb, idx, rv in defs:
            if idx == "term":
                f = rv.get("f")
                nonfalse.append(frozenset([f["name"]]) if rv["k"] == "call" and f and f["name"] in self.names else frozenset())
            elif rv["k"] == "use":
                c = op_const(rv["ops"][0])
                if c is not None:
                    if str(c) != "false":
                        nonfalse.append(frozenset())
                    continue
                p = op_place(rv["ops"][0])
                nonfalse.append(self.derived(pl_local(p), depth + 1) if isinstance(p, int) else frozenset())
            else:
                nonfalse.append(frozenset())
        if nonfalse:
            res = frozenset.intersection(*nonfalse)
        else:
            res = frozenset()
        self._derived[local] = res
        return res

    def guards_of(self, bb):
        """set of (callee name, True/False): bb is dominated by the true / false target of a switch on a value derived from that call
        (and not by the other target)"""
        out = set()
        for sb, ns, tt, ft in self.switches:
            dt = self.b.dominates(tt, bb)
            df = self.b.dominates(ft, bb)
            if dt and not df:
                # the true target must only be entered through this switch for the implication to hold
                if set(self.b.preds(tt)) <= {sb} or all(self.b.dominates(tt, p) or p == sb for p in self.b.preds(tt)):
                    for n in ns:
                        out.add((n, True))
            elif df and not dt:
                if len(ns) == 1 and (set(self.b.preds(ft)) <= {sb} or all(self.b.dominates(ft, p) or p == sb for p in self.b.preds(ft))):
                    for n in ns:
                        out.add((n, False))
        # conjunction lowering: `a() && b()` switches directly on a()'s result, then on b()'s: both true-edges dominate
        return out
