"""RETRY-SAFE rule for drain loops: inside a loop that readies a downstream before each send, nothing of the adaptor's own state may be
modified between the loop head and the readiness check — when the downstream answers Pending the function returns and the whole iteration
is retried on the next poll, so a cursor advanced / an item taken before the check is lost.

Decided per function on the MIR: R = block calling the downstream's poll_ready inside a CFG cycle; H = header of that cycle (the block of
the strongly connected component that dominates all others); W = block that writes own (non-downstream) state.  Violation: a path W -> R
inside the component that does not pass through H again (unless it starts there) and does not pass a downstream start_send."""
import proto
from mir import op_place, pl_local, pl_projs

READY_NAMES = {"poll_ready"}
SEND_NAMES = {"start_send"}
READONLY_CALLS = {"borrow", "get", "is_empty", "len", "as_ref", "iter", "peek", "as_mut", "project", "deref", "deref_mut", "as_pin_mut", "get_mut", "borrow_mut", "first", "last", "contains",
                  "contains_key", "size_hint", "is_some", "is_none", "clone", "poll_ready", "poll_flush", "poll_close", "poll_finalize", "start_send", "as_deref_mut", "as_deref", "poll", "is_done",
                  "is_pending", "from_task", "unmerge_self", "unmerge_other", "poll_next", "next", "pull"}


def downstream_fields(body, org):
    out = set()
    for bb, t in body.calls():
        f = t.get("f")
        if f and f["name"] in READY_NAMES | SEND_NAMES | {"poll_finalize", "poll_flush", "poll_close"} and t["a"]:
            p = op_place(t["a"][0])
            if p is None:
                continue
            root, path = org.origin_place(p)
            if root == 1 and path:
                out.add(str(path[0]))
    return out


def analyse(body):
    """returns (n_ready_in_loops, findings[(write bb, ready bb, what)])"""
    if body.kind == "Closure":
        return 0, []
    org = proto.Origins(body)
    down = downstream_fields(body, org)
    readies = []
    sends = set()
    for bb, t in body.calls():
        f = t.get("f")
        if not f or not t["a"] or body.is_cleanup(bb):
            continue
        p = op_place(t["a"][0])
        if p is None:
            continue
        root, path = org.origin_place(p)
        if root != 1 or not path or str(path[0]) not in down:
            continue
        if f["name"] in READY_NAMES:
            readies.append(bb)
        elif f["name"] in SEND_NAMES:
            sends.add(bb)
    findings = []
    n = 0
    for r in readies:
        fwd = body.reachable(start=r)
        scc = set(b for b in fwd if r in body.reachable(start=b)) if r in _succ_closure(body, r) else set()
        if not scc:
            continue
        n += 1
        heads = [h for h in scc if all(body.dominates(h, x) for x in scc)]
        if not heads:
            continue
        h = heads[0]
        # only loops that actually send (drain loops)
        if not (sends & scc):
            continue
        for w, what in own_writes(body, org, down):
            if w not in scc or w in sends or w == r:
                continue
            # path w -> r inside scc avoiding sends and (re-entering) h
            seen = set()
            work = [w]
            hit = False
            while work:
                x = work.pop()
                if x in seen:
                    continue
                seen.add(x)
                if x == r and x != w:
                    hit = True
                    break
                for s in body.succs(x):
                    if s in scc and s not in sends and (s != h) and s not in seen:
                        work.append(s)
                    elif s == r:
                        hit = True
                        work = []
                        break
            if hit:
                findings.append((w, r, what))
    return n, findings


def _succ_closure(body, b):
    out = set()
    for s in body.succs(b):
        out |= body.reachable(start=s)
    return out


def own_writes(body, org, down):
    out = []
    for bb in range(body.n):
        if body.is_cleanup(bb):
            continue
        for s in body.stmts(bb):
            if "lhs" in s and not isinstance(s["lhs"], int) and "*" in pl_projs(s["lhs"]):
                root, path = org.origin_place(s["lhs"])
                if root == 1 and path and str(path[0]) not in down and not str(path[0]).startswith("?"):
                    out.append((bb, "assignment to self." + ".".join(str(x) for x in path)))
        t = body.term(bb)
        if t["k"] == "call" and t.get("f") and t["a"]:
            f = t["f"]
            if f["name"] in READONLY_CALLS:
                continue
            for a in t["a"][:1]:
                p = op_place(a)
                if p is None or not isinstance(p, int):
                    continue
                ty = body.locals[p]
                if not (ty.startswith("&mut ") or (ty.startswith("core::pin::Pin<&mut") and f["name"] in ("set", "project_replace", "replace", "take"))):
                    continue
                root, path = org.origin_place(p)
                if root == 1 and path and str(path[0]) not in down and not str(path[0]).startswith("?"):
                    out.append((bb, "%s(&mut self.%s)" % (f["name"], ".".join(str(x) for x in path))))
    return out
