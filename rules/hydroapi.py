"""Typing of hydro_lang's live-collection API against the IR it builds.

For every non-test function of hydro_lang::live_collections that directly constructs a HydroNode
variant, all ground instantiations of its marker parameters (ordering, retries, boundedness, proof
markers) admitted by its where-clauses are enumerated (hydrotypes.Solver), the input and output
collection types are normalised under each instantiation, and the *typing rule of the constructed
IR node* is checked: the guarantees written in the output type must follow from the guarantees of
the inputs and the operator's semantics.  A loosened where-clause, a loosened marker impl, a wrong
associated-type table entry or a too-strong output type all show up as an admitted instantiation
that breaks a node rule.

The node rules are the oracle; they are stated from the documented semantics of the IR nodes
(hydro_lang/src/compile/ir/mod.rs) and the DFIR operators they are emitted as.
"""
import re

import hydrotypes as H
from mir import op_place, op_const

LC = "hydro_lang::live_collections::"

ORDER = {"TotalOrder": 1, "NoOrder": 0}
RETRY = {"ExactlyOnce": 1, "AtLeastOnce": 0}

# promises made by a bound marker, per collection kind
PROMISES = {
    "stream": {"Bounded": {"finite"}, "Unbounded": set()},
    "keyed_stream": {"Bounded": {"finite"}, "Unbounded": set()},
    "singleton": {"Bounded": {"finite", "monotone", "immutable"}, "Monotonic": {"monotone"}, "Unbounded": set()},
    "optional": {"Bounded": {"finite", "monotone", "immutable"}, "Unbounded": set()},
    "keyed_singleton": {
        "Bounded": {"finite", "keys_grow", "values_monotone", "value_immutable"},
        "BoundedValue": {"keys_grow", "values_monotone", "value_immutable"},
        "MonotonicValue": {"keys_grow", "values_monotone"},
        "MonotonicKeys": {"keys_grow"},
        "Unbounded": set(),
    },
}


def node_constructions(crate):
    """root fn def-path -> list of (variant, body, bb, stmt)"""
    out = {}
    for d, b in sorted(crate.bodies.items()):
        if crate.is_test_path(d):
            continue
        for bb in range(b.n):
            if b.is_cleanup(bb):
                continue
            for st in b.stmts(bb):
                rv = st.get("rv")
                if rv and rv["k"] == "agg" and rv.get("agg") == "adt" and rv["adt"]["def"].endswith("compile::ir::HydroNode") and rv["adt"]["variant"] != "Placeholder":
                    out.setdefault(b.root, []).append((rv["adt"]["variant"], b, bb, st))
    return out


def const_switch_value(crate, solver, body, bb, binding):
    """if block bb ends in a switch on a local assigned from `const <P as Trait>::NAME` and P is bound to a ground type whose impl
    records the const's value, return the taken target; else None"""
    t = body.term(bb)
    if t["k"] != "switch":
        return None
    dp = op_place(t["d"])
    if not isinstance(dp, int):
        return None
    defs = body.defs_of(dp)
    if len(defs) != 1 or defs[0][1] == "term":
        return None
    rv = defs[0][2]
    if rv["k"] != "use":
        return None
    c = op_const(rv["ops"][0])
    if not c:
        return None
    n = H.parse(str(c))
    if n[0] != "proj":
        return None
    selfty = solver.normalize(H.subst(n[1], binding))
    if H.params_in(selfty, set(binding)) or selfty[0] != "path" or "::" not in selfty[1]:
        return None
    val = None
    for i, _b in solver.find_impls(H.last(n[2][1]), [selfty]):
        for it in i["items"]:
            if it["name"] == n[3] and it.get("const") is not None:
                val = it["const"]
    if val is None:
        return None
    m = re.match(r"^0x([0-9a-fA-F]+)$", val)
    iv = int(m.group(1), 16) if m else (int(val) if val.isdigit() else None)
    if iv is None:
        return None
    for v, tgt in t["ts"]:
        if v == iv:
            return tgt
    return t["o"]


def reachable_under(crate, solver, body, binding):
    """blocks reachable from entry when switches on evaluable associated consts take their decided edge"""
    seen = {0}
    work = [0]
    while work:
        b = work.pop()
        tgt = const_switch_value(crate, solver, body, b, binding)
        succs = [tgt] if tgt is not None else body.succs(b)
        for s in succs:
            if s not in seen:
                seen.add(s)
                work.append(s)
    return seen


def gname(n):
    """last-segment name of a ground marker type, or None"""
    if n is None:
        return None
    if n[0] == "path" and not n[2]:
        return H.last(n[1])
    return None


class Col:
    def __init__(self, api, col, b):
        self.kind = col["kind"]
        self.loc = api.norm(col["loc"], b)
        self.B = gname(api.norm(col["B"], b))
        self.O = gname(api.norm(col["O"], b)) if col["O"] is not None else None
        self.R = gname(api.norm(col["R"], b)) if col["R"] is not None else None
        self.streamlike = col["O"] is not None
        self.in_tick = self.loc[0] == "path" and H.last(self.loc[1]) == "Tick"

    def so(self):
        return ORDER.get(self.O)

    def sr(self):
        return RETRY.get(self.R)

    def promises(self):
        return PROMISES.get(self.kind, {}).get(self.B)

    def __str__(self):
        return "%s<%s, %s%s%s>" % (self.kind, H.show(self.loc), self.B, (", " + str(self.O)) if self.streamlike else "", (", " + str(self.R)) if self.streamlike else "")


class Site:
    """one API function x one constructed variant, with its admitted instantiations"""

    def __init__(self, crate, solver, root, variant, cons):
        self.crate = crate
        self.solver = solver
        self.root = root
        self.variant = variant
        self.cons = cons            # list of (body, bb)
        self.fn = crate.fns.get(root)
        self.api = H.ApiFn(crate, solver, self.fn) if self.fn else None

    def instantiations(self):
        """yields (binding, self Col or None, other Cols, out Col or None) for admitted instantiations under which a construction of
        the variant is reachable"""
        api = self.api
        ins = [H.collection_of(n) for n in api.inputs]
        out = H.collection_of(api.output)
        for b in api.assignments():
            ok = False
            for body, bb in self.cons:
                if body.def_path != self.root:
                    ok = True   # inside a closure: no path evaluation
                    break
                if bb in reachable_under(self.crate, self.solver, body, b):
                    ok = True
                    break
            if not ok:
                continue
            cols = [Col(api, c, b) if c else None for c in ins]
            selfc = cols[0] if cols and cols[0] is not None else None
            others = [c for c in cols[1:] if c is not None]
            yield b, selfc, others, (Col(api, out, b) if out else None)

    def proof_params(self):
        """names of the (commutative, idempotent, monotone) proof parameters of an aggregation closure, from AggFuncAlgebra<C, I, M>"""
        for n in self.api.inputs + [H.parse(a) for p in self.api.preds if p["k"] == "trait" for a in p["args"]]:
            r = _find_path(n, "AggFuncAlgebra")
            if r is not None and len(r[2]) >= 2:
                names = [x[1] if x[0] == "path" and not x[2] else None for x in r[2]]
                while len(names) < 3:
                    names.append(None)
                return names[:3]
        return None

    def order_preserving_param(self):
        """name of the order-preservation proof parameter of a map closure, from SingletonMapFuncAlgebra<OP, ..>"""
        for n in self.api.inputs + [H.parse(a) for p in self.api.preds if p["k"] == "trait" for a in p["args"]]:
            r = _find_path(n, "SingletonMapFuncAlgebra")
            if r is not None and r[2] and r[2][0][0] == "path" and not r[2][0][2]:
                return r[2][0][1]
        return None

    def has_nondet_param(self):
        return any(n[0] == "path" and n[1].endswith("nondet::NonDet") for n in self.api.inputs)


def _find_path(n, name):
    if n is None:
        return None
    k = n[0]
    if k == "path":
        if H.last(n[1]) == name:
            return n
        for x in n[2]:
            r = _find_path(x, name)
            if r is not None:
                return r
    elif k == "proj":
        for x in (n[1], n[2]) + tuple(n[4]):
            r = _find_path(x, name)
            if r is not None:
                return r
    elif k in ("tuple", "impl", "dyn"):
        for x in n[1]:
            r = _find_path(x, name)
            if r is not None:
                return r
    elif k == "ref":
        return _find_path(n[2], name)
    elif k == "bind":
        return _find_path(n[2], name)
    return None


def sites(crate, solver):
    out = []
    for root, lst in sorted(node_constructions(crate).items()):
        if not root.startswith(LC):
            continue
        byv = {}
        for v, body, bb, st in lst:
            byv.setdefault(v, []).append((body, bb))
        for v, cons in sorted(byv.items()):
            s = Site(crate, solver, root, v, cons)
            if s.fn is not None:
                out.append(s)
    return out


# ----------------------------------------------------------------------------- node typing rules

ELEMENTWISE = {"Map", "Filter", "FilterMap", "Inspect", "FlatMap", "FlatMapStreamBlocking", "PartitionSide", "PartitionShared", "Tee", "BeginAtomic", "EndAtomic",
               "DeferTick", "Batch", "YieldConcat", "CrossSingleton", "AntiJoin", "Difference", "ResolveFuturesOrdered", "Unique", "AssertIsConsistent"}
VALUE_TRANSFORM = {"Map", "FilterMap", "Filter", "FlatMap", "FlatMapStreamBlocking"}
ORDER_SENSITIVE = {"Enumerate", "Scan", "ScanAsyncBlocking"}
AGGREGATIONS = {"Fold", "Reduce", "FoldKeyed", "ReduceKeyed", "ReduceKeyedWatermark"}
UNORDERED_OUT = {"ResolveFutures", "ResolveFuturesBlocking"}
NONDET_NODES = {"Batch", "ObserveNonDet", "MergeOrdered"}

RULE_TEXT = {
    "order-created": "an element-wise operator cannot create an order its input does not have: the output is typed totally ordered while the input may be unordered",
    "exactly-once-created": "an element-wise operator cannot remove duplicates: the output is typed exactly-once while the input may carry retries",
    "needs-total-order": "the operator's result depends on element order and multiplicity, so every admitted input must be TotalOrder and ExactlyOnce",
    "agg-commutativity": "an aggregation over a possibly unordered input must carry a commutativity proof",
    "agg-idempotence": "an aggregation over a possibly duplicated input must carry an idempotence proof",
    "unordered-output": "completion order of futures is arbitrary, so the output must be typed NoOrder",
    "chain-order": "a concatenation is totally ordered only if both inputs are and the first is bounded; it is at most as duplicate-free as both inputs",
    "sort-bounded": "sort must see a bounded input",
    "join-order": "a symmetric hash join of two streams emits in arrival order of either side: the output must be NoOrder; a half join keeps the streamed side's order only if the built side is bounded",
    "join-retries": "a join is at most as duplicate-free as both inputs",
    "cast-strengthens": "a public cast without a NonDet guard must not strengthen ordering, retries or boundedness",
    "nondet-unguarded": "a public API that builds a nondeterminism-exposing IR node must take a NonDet guard",
    "bound-created": "the output's boundedness / monotonicity promise does not follow from the input's",
    "agg-monotone": "an aggregation's result is promised monotone only with a monotonicity proof (or a bounded input)",
}


def _le(a, b):
    return a is None or b is None or a <= b


def check_site(site):
    """-> (n_instantiations, [(tag, detail, instantiation string)])"""
    v = site.variant
    out_v = []
    n = 0
    proof = site.proof_params() if v in AGGREGATIONS else None
    pub = site.fn["vis"] == "pub"
    nondet = site.has_nondet_param()
    for b, s, others, out in site.instantiations():
        n += 1
        inst = ", ".join("%s=%s" % (k, H.show(x)) for k, x in sorted(b.items()))
        sig = "%s%s -> %s" % (s, "".join(" x " + str(o) for o in others), out)

        def bad(tag, extra=""):
            out_v.append((tag, extra, inst + " :: " + sig))

        if s is None:
            continue
        o1 = others[0] if others else None
        if v in ELEMENTWISE and s.streamlike and out is not None and out.streamlike:
            if not _le(out.so(), s.so()):
                bad("order-created")
            if v != "Unique" and not _le(out.sr(), s.sr()):
                bad("exactly-once-created")
        if v in ORDER_SENSITIVE and s.streamlike:
            if s.so() == 0 or s.sr() == 0:
                bad("needs-total-order")
            if out is not None and out.streamlike and (not _le(out.so(), s.so()) or not _le(out.sr(), s.sr())):
                bad("order-created")
        if v in AGGREGATIONS and s.streamlike:
            c = gname(b.get(proof[0])) if proof and proof[0] else None
            i = gname(b.get(proof[1])) if proof and proof[1] else None
            if s.so() == 0 and c != "Proved":
                bad("agg-commutativity")
            if s.sr() == 0 and i != "Proved":
                bad("agg-idempotence")
            m = gname(b.get(proof[2])) if proof and proof[2] else None
            if out is not None and out.promises() is not None and s.B != "Bounded":
                allowed = set()
                if v in ("FoldKeyed", "ReduceKeyed", "ReduceKeyedWatermark"):
                    allowed.add("keys_grow")
                if m == "Proved":
                    allowed |= {"monotone", "values_monotone"}
                if not out.promises() <= allowed:
                    bad("agg-monotone", "extra promises %s" % sorted(out.promises() - allowed))
        if v in UNORDERED_OUT and s.streamlike and out is not None and out.streamlike:
            if out.so() == 1:
                bad("unordered-output")
            if not _le(out.sr(), s.sr()):
                bad("exactly-once-created")
        if v == "Chain" and s.streamlike and out is not None and out.streamlike and o1 is not None and o1.streamlike:
            if out.so() == 1 and (s.so() == 0 or o1.so() == 0 or (s.B != "Bounded" and not s.in_tick)):
                bad("chain-order")
            if out.sr() == 1 and (s.sr() == 0 or o1.sr() == 0):
                bad("chain-order", "retries")
        if v == "Sort" and s.B != "Bounded" and not s.in_tick:
            bad("sort-bounded")
        if v in ("Join", "JoinHalf", "CrossProduct") and s.streamlike and out is not None and out.streamlike and o1 is not None:
            if o1.streamlike and out.sr() == 1 and (s.sr() == 0 or o1.sr() == 0):
                bad("join-retries")
            if not o1.streamlike and not _le(out.sr(), s.sr()):
                bad("join-retries")
            if v == "Join" and s.kind == "stream" and out.kind == "stream" and out.so() == 1:
                bad("join-order", "symmetric join typed TotalOrder")
            if v == "JoinHalf":
                if not _le(out.so(), s.so()):
                    bad("join-order", "half join creates order")
                if out.so() == 1 and o1.B != "Bounded":
                    bad("join-order", "half join keeps order with an unbounded build side")
        if v == "Cast" and pub and not nondet and out is not None:
            if s.streamlike and out.streamlike:
                if s.kind == out.kind:
                    if not _le(out.so(), s.so()) or not _le(out.sr(), s.sr()):
                        bad("cast-strengthens", "order/retries")
                elif s.kind == "keyed_stream" and out.kind == "stream":
                    if out.so() == 1 or not _le(out.sr(), s.sr()):
                        bad("cast-strengthens", "flattening a keyed stream interleaves keys")
                elif s.kind == "stream" and out.kind == "keyed_stream":
                    if not _le(out.so(), s.so()) or not _le(out.sr(), s.sr()):
                        bad("cast-strengthens", "order/retries")
            if s.kind == out.kind and s.promises() is not None and out.promises() is not None and not (out.in_tick and not s.in_tick):
                if not out.promises() <= s.promises():
                    bad("cast-strengthens", "bound: extra promises %s" % sorted(out.promises() - s.promises()))
        if v in NONDET_NODES and pub and not nondet:
            bad("nondet-unguarded")
        if v in ELEMENTWISE and v not in ("Batch", "YieldConcat") and out is not None and s.kind == out.kind and s.promises() is not None and out.promises() is not None:
            if not (out.in_tick and not s.in_tick) and not out.promises() <= s.promises():
                bad("bound-created", "extra promises %s" % sorted(out.promises() - s.promises()))
        # value-transforming nodes on collections whose value may still change: an arbitrary function does not preserve monotonicity, and a
        # predicate over a changing value can retract a key
        if v in VALUE_TRANSFORM and out is not None and s.kind == out.kind and s.kind in ("singleton", "optional", "keyed_singleton") \
                and s.promises() is not None and out.promises() is not None and not (out.in_tick and not s.in_tick):
            immutable = bool(s.promises() & {"immutable", "value_immutable"})
            op = site.order_preserving_param()
            preserving = op is not None and gname(b.get(op)) == "Proved"
            if not immutable and not preserving:
                extra = out.promises() & {"monotone", "values_monotone"}
                if extra:
                    bad("bound-created", "an arbitrary function of a changing value is promised %s" % sorted(extra))
                if v in ("Filter", "FilterMap") and "keys_grow" in out.promises():
                    bad("bound-created", "a predicate over a changing value can drop a key, yet the output promises keys_grow")
    return n, out_v


# ----------------------------------------------------------------------------- library-internal assumptions (fresh NonDet guards)

def nondet_origin(b, op, depth=0):
    """where a NonDet operand comes from: 'fresh' (constructed here), 'param' (the function's own NonDet parameter), 'upvar', 'unknown'"""
    if "c" in op or "fn" in op:
        return "fresh"
    p = op_place(op)
    if p is None:
        return "unknown"
    l = p if isinstance(p, int) else p[0]
    if not isinstance(p, int):
        if l == 1 and b.def_path != b.root:
            return "upvar"
        if 1 <= l <= b.argc:
            return "param"       # a field of a parameter (e.g. the guard stored in a `sliced!` wrapper)
        return "unknown"
    if 1 <= l <= b.argc:
        return "param"
    if depth > 8:
        return "unknown"
    defs = b.defs_of(l)
    if not defs:
        return "unknown"
    res = set()
    for bb, idx, rv in defs:
        if idx == "term":
            res.add("unknown")
        elif rv["k"] == "agg":
            res.add("fresh")
        elif rv["k"] == "use":
            res.add(nondet_origin(b, rv["ops"][0], depth + 1))
        else:
            res.add("unknown")
    if res == {"fresh"}:
        return "fresh"
    if res == {"param"}:
        return "param"
    if "fresh" in res:
        return "fresh"      # conservatively: some path constructs it here
    return "/".join(sorted(res))


def guard_sites(crate):
    """every call in non-test code that passes a NonDet argument: (body, bb, term, arg index, origin)"""
    out = []
    for d, b in sorted(crate.bodies.items()):
        if crate.is_test_path(d):
            continue
        for bb, t in b.calls():
            f = t.get("f")
            if not f:
                continue
            for i, a in enumerate(t["a"]):
                p = op_place(a)
                ty = None
                if p is not None and isinstance(p, int):
                    ty = b.locals[p]
                elif "c" in a:
                    ty = a.get("ty")
                if ty and ty.endswith("nondet::NonDet"):
                    out.append((b, bb, t, i, nondet_origin(b, a)))
    return out


def strengthenings(crate, solver, body, term):
    """for a call whose receiver and result are live collections: the set of strict strengthenings (order / retries / bound promises / shape)
    over all instantiations admitted by the enclosing function's where-clauses.  Returns (n_instantiations, sorted list of strings)"""
    fn = crate.fns.get(body.root)
    if fn is None or not term["a"]:
        return 0, None
    p = op_place(term["a"][0])
    dst = term.get("dst")
    if p is None or not isinstance(p, int) or not isinstance(dst, int):
        return 0, None
    cin = H.collection_of(H.parse(body.locals[p]))
    cout = H.collection_of(H.parse(body.locals[dst]))
    if cin is None or cout is None:
        return 0, None
    api = H.ApiFn(crate, solver, fn)
    sigma = set()
    n = 0
    for b in api.assignments():
        n += 1
        i = Col(api, cin, b)
        o = Col(api, cout, b)
        parts = []
        if i.streamlike and o.streamlike:
            if i.so() is not None and o.so() is not None and o.so() > i.so():
                parts.append("order %s->%s @retries=%s,bound=%s" % (i.O, o.O, i.R, i.B))
            if i.sr() is not None and o.sr() is not None and o.sr() > i.sr():
                parts.append("retries %s->%s @order=%s,bound=%s" % (i.R, o.R, i.O, i.B))
            if (i.so() is None) != (o.so() is None) or (i.sr() is None) != (o.sr() is None):
                parts.append("order/retries undecidable %s,%s->%s,%s" % (i.O, i.R, o.O, o.R))
        if i.kind != o.kind:
            parts.append("shape %s[%s,%s,%s]->%s[%s]" % (i.kind, i.B, i.O, i.R, o.kind, o.B))
        elif i.promises() is not None and o.promises() is not None and not o.promises() <= i.promises():
            parts.append("bound %s->%s" % (i.B, o.B))
        if parts:
            sigma.add("; ".join(parts))
    return n, sorted(sigma)
