"""E3: compile-fail witnesses with compiling twins, decided by the repository's own (stable) toolchain.

Every witness source under /verif/witness/src holds one `/*BAD*/` line and one `/*GOOD*/` line; two binaries are generated that differ
only in that line. The twin must type-check; the bad one must fail with exactly the expected error code, reported inside the witness file.
The crate is generated under the work directory and path-depends on the repository copy under analysis (nothing is written to /repo)."""
import glob
import json
import os
import re
import shutil
import subprocess

from facts import VERIF, REPO, WORK, InfraError

SRC = os.path.join(VERIF, "witness", "src")


def load():
    out = []
    for f in sorted(glob.glob(os.path.join(SRC, "*.rs"))):
        txt = open(f).read()
        meta = dict(re.findall(r"^//! (\w+): (.*)$", txt, re.M))
        if "/*BAD*/" not in txt or "/*GOOD*/" not in txt:
            raise InfraError("witness %s lacks a BAD or GOOD line" % f)
        out.append({"name": os.path.basename(f)[:-3], "text": txt, "property": meta.get("property"), "expect": meta.get("expect"), "gate": meta.get("gate", "")})
    return out


def _variant(txt, keep):
    drop = "/*GOOD*/" if keep == "/*BAD*/" else "/*BAD*/"
    lines = []
    for ln in txt.split("\n"):
        if drop in ln:
            lines.append("")          # keep line numbers identical in both twins
        else:
            lines.append(ln.replace(keep, "        "))
    return "#![allow(unexpected_cfgs, unused)]\n" + "\n".join(lines)


def prepare(witnesses):
    d = os.path.join(WORK, "witness")
    os.makedirs(os.path.join(d, "src", "bin"), exist_ok=True)
    for old in glob.glob(os.path.join(d, "src", "bin", "*.rs")):
        os.remove(old)
    bins = []
    for w in witnesses:
        for kind, keep in (("bad", "/*BAD*/"), ("good", "/*GOOD*/")):
            nm = "%s_%s" % (kind, w["name"])
            with open(os.path.join(d, "src", "bin", nm + ".rs"), "w") as f:
                f.write(_variant(w["text"], keep))
            bins.append(nm)
    with open(os.path.join(d, "Cargo.toml"), "w") as f:
        f.write('[package]\nname = "hydro_witness"\nversion = "0.0.0"\nedition = "2024"\npublish = false\n\n[workspace]\n\n[dependencies]\n'
                'hydro_lang = { path = "%s/hydro_lang" }\nstageleft = "*"\n' % REPO)
    shutil.copy(os.path.join(REPO, "Cargo.lock"), os.path.join(d, "Cargo.lock"))
    tc = os.path.join(REPO, "rust-toolchain.toml")
    if os.path.exists(tc):
        shutil.copy(tc, os.path.join(d, "rust-toolchain.toml"))
    return d


def run(witnesses):
    """returns dict name -> {"good_ok": bool, "bad_codes": [..], "bad_lines_in_file": bool, "raw": ..}"""
    d = prepare(witnesses)
    env = dict(os.environ, CARGO_NET_OFFLINE="true", CARGO_TARGET_DIR=os.path.join(WORK, "tgt-witness"))
    env.pop("RUSTC_WORKSPACE_WRAPPER", None)
    env.pop("RUSTFLAGS", None)
    r = subprocess.run(["cargo", "check", "--offline", "--bins", "--message-format=json", "--keep-going"], cwd=d, env=env, capture_output=True, text=True)
    per = {}
    built = set()
    dep_error = None
    for line in r.stdout.splitlines():
        if not line.startswith("{"):
            continue
        try:
            m = json.loads(line)
        except ValueError:
            continue
        if m.get("reason") == "compiler-artifact" and m["target"]["kind"] == ["bin"]:
            built.add(m["target"]["name"])
        if m.get("reason") == "compiler-message" and m["message"].get("level") == "error":
            tgt = m["target"]["name"]
            if m["target"]["kind"] != ["bin"]:
                dep_error = m["message"].get("rendered", "")[:800]
                continue
            code = (m["message"].get("code") or {}).get("code")
            spans = [s for s in m["message"].get("spans", []) if s.get("is_primary")]
            per.setdefault(tgt, []).append({"code": code, "file": spans[0]["file_name"] if spans else None, "line": spans[0]["line_start"] if spans else None,
                                            "msg": m["message"].get("message", "")[:300]})
    if dep_error or ("could not compile `hydro_lang`" in r.stderr):
        raise InfraError("witness crate: a dependency failed to build:\n%s\n%s" % (dep_error or "", r.stderr[-1500:]))
    if not built and not per:
        raise InfraError("witness crate produced no result:\n" + r.stderr[-2000:])
    out = {}
    for w in witnesses:
        good, bad = "good_" + w["name"], "bad_" + w["name"]
        bad_line = next(i + 2 for i, ln in enumerate(w["text"].split("\n")) if "/*BAD*/" in ln)   # +1 for 1-based, +1 for the inserted attribute line
        out[w["name"]] = {
            "good_ok": good in built and good not in per,
            "good_errors": per.get(good, []),
            "bad_built": bad in built and bad not in per,
            "bad_codes": sorted(set(e["code"] for e in per.get(bad, []) if e["code"])),
            "bad_on_bad_line": all(e["line"] == bad_line for e in per.get(bad, []) if e["code"]),
            "bad_errors": per.get(bad, []),
        }
    return out


def check(ctx, prop):
    """thorough-tier rule: the witnesses of this property behave as their headers say"""
    ws = [w for w in load() if w["property"] == prop]
    rid = ctx.rule("%s.witness" % prop, "type-gate witnesses (rustc, the repository's toolchain): the twin compiles, the offending line is rejected with the expected error code", floor=len(ws))
    if not ws:
        return
    res = run(ws)
    for w in ws:
        r = res[w["name"]]
        key = "witness|" + w["name"]
        ctx.inst(rid, key, sample={"gate": w["gate"], "expected": w["expect"], "bad_codes": r["bad_codes"], "twin_compiles": r["good_ok"]})
        if not r["good_ok"]:
            # the twin must compile: otherwise the witness itself is broken (API changed) - this is not evidence about the gate
            ctx.broken.append("witness %s: the compiling twin does not compile (%s) - the witness needs updating" % (w["name"], [e["msg"][:120] for e in r["good_errors"]][:2]))
            continue
        if r["bad_built"]:
            ctx.violation(rid, key + "|gate-open", "the program that violates the gate (%s) now type-checks" % w["gate"], "witness/src/%s.rs" % w["name"])
        elif r["bad_codes"] != [w["expect"]] or not r["bad_on_bad_line"]:
            ctx.broken.append("witness %s: rejected with %s (expected %s on the BAD line) - the witness needs updating" % (w["name"], r["bad_codes"], w["expect"]))
