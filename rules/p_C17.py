"""C17 — subgraph merging (partial: incompatibility is respected and preserved)."""
import mir
import proto
from framework import fn_key
from mir import op_place, pl_local, pl_str
from util import derives_field, calls_on_field

LEVEL = "other"
MOD = "dfir_lang::graph::graph_algorithms::"


def switch_targets_on(b, local):
    """(switch block, false target, true target) for bool switches on `local` (or copies)"""
    out = []
    for sb in range(b.n):
        t = b.term(sb)
        if t["k"] == "switch" and op_place(t["d"]) == local:
            zero = [tgt for v, tgt in t["ts"] if v == 0]
            out.append((sb, zero[0] if zero else None, t["o"]))
    return out


def variant_target(b, local, variant):
    out = set()
    for sb in range(b.n):
        ts = b.term(sb)
        if ts["k"] != "switch" or b.is_cleanup(sb):
            continue
        dp = op_place(ts["d"])
        if not isinstance(dp, int):
            continue
        for db, idx, rv in b.defs_of(dp):
            if idx != "term" and rv["k"] == "discr" and rv["p"] == local:
                variants = {v: n for v, n in (rv.get("variants") or [])}
                for val, tgt in ts["ts"]:
                    if variants.get(val) == variant:
                        out.add(tgt)
                rest = [n for v, n in variants.items() if v not in [x for x, _ in ts["ts"]]]
                if rest == [variant]:
                    out.add(ts["o"])
    return out


def run(ctx):
    ctx.explanation = ("Structural rules on SubgraphMerge (MIR, all paths): the union of two groups is executed only after the enemy lookup answered 'not enemies' and after the cycle search "
                       "ran to exhaustion without finding a path; nobody else unions the membership structure; the enemy relation is inserted symmetrically and is remapped "
                       "element-wise (u gains w, w loses v and gains u) when v is merged into u.")
    ctx.undecided = "correctness of topo_sort, of the window re-sort, and that a merge is refused only when necessary"
    c = mir.load_crate("dfir_lang")
    uf_rule(ctx, c)
    pairing_rule(ctx, c)
    tm = c.bodies.get(MOD + "{impl#0}::try_merge")
    new = c.bodies.get(MOD + "{impl#0}::new")
    R_G = ctx.rule("C17.guard", "UnionFind::union in try_merge is dominated by the not-enemy edge of the enemies lookup and by the exhaustion (pop -> None) of the cycle search", floor=1)
    R_W = ctx.rule("C17.who", "subgraph_unionfind.union is called only by SubgraphMerge::try_merge", floor=1)
    R_S = ctx.rule("C17.sym", "SubgraphMerge::new inserts (a -> b) and (b -> a) for every no-merge pair, on every path", floor=1)
    R_R = ctx.rule("C17.remap", "when v is merged into u every enemy w of v is added to enemies[u], and enemies[w] loses v and gains u, on every iteration path", floor=1)
    if tm is None or new is None:
        ctx.anchor_missing(R_G, "SubgraphMerge::try_merge / new")
        return
    key = "dfir_lang|SubgraphMerge::try_merge"
    unions = calls_on_field(tm, {"union"}, {"subgraph_unionfind"})
    # enemy lookup: is_some_and / contains on a value derived from self.enemies
    enemy_checks = []
    for bb, t in tm.calls():
        f = t.get("f")
        if f and f["name"] in ("is_some_and", "contains", "is_some_and_then") and isinstance(t.get("dst"), int) and t["a"]:
            p = op_place(t["a"][0])
            if p is not None and "enemies" in proto.Origins(tm).ident(p).split("."):
                enemy_checks.append((bb, t["dst"]))
    pops = [(bb, t["dst"]) for bb, t in tm.calls() if t.get("f") and t["f"]["name"] == "pop" and isinstance(t.get("dst"), int)]
    ctx.inst(R_G, key, sites=len(unions), sample={"union_blocks": unions, "enemy_check_blocks": [b for b, _ in enemy_checks], "cycle_search_pop_blocks": [b for b, _ in pops]})
    if not unions or not enemy_checks or not pops:
        ctx.anchor_missing(R_G, "union / enemy lookup / cycle-search pop in try_merge")
    for ub in unions:
        ok = False
        for cb, d in enemy_checks:
            for sb, f_t, t_t in switch_targets_on(tm, d):
                if f_t is not None and tm.dominates(f_t, ub) and not tm.dominates(t_t, ub):
                    ok = True
        if not ok:
            ctx.violation(R_G, key + "|union-without-enemy-check", "the groups are united on a path that did not take the 'not enemies' edge of the enemies lookup: "
                          "two nodes declared incompatible could end up in one subgraph", tm.loc(ub))
        ok2 = False
        for pb, d in pops:
            for tgt in variant_target(tm, d, "None"):
                if tm.dominates(tgt, ub):
                    ok2 = True
        if not ok2:
            ctx.violation(R_G, key + "|union-before-cycle-search-done", "the groups are united before the cycle search has exhausted its stack: a merge could create a cycle "
                          "between groups", tm.loc(ub))
    # ---- who
    callers = []
    for d, b in sorted(c.bodies.items()):
        if c.is_test_path(d):
            continue
        if calls_on_field(b, {"union"}, {"subgraph_unionfind"}):
            callers.append(d)
    ctx.inst(R_W, "dfir_lang|subgraph_unionfind.union", sites=len(callers), sample={"callers": callers})
    for d in callers:
        if d != tm.def_path:
            ctx.violation(R_W, "dfir_lang|%s|foreign-union" % fn_key(c, c.bodies[d]), "the membership union-find is united outside try_merge (bypassing the enemy and cycle checks)", c.bodies[d].loc())
    # ---- sym (in new)
    key = "dfir_lang|SubgraphMerge::new"
    org = proto.Origins(new)
    inserts = []
    for bb, t in new.calls():
        f = t.get("f")
        if f and f["name"] == "insert" and "HashSet" in (f.get("impl_self", "") + f["def"]) and len(t["a"]) >= 2:
            # receiver chain back to entry(key)
            k = entry_key(new, org, op_place(t["a"][0]))
            v = op_place(t["a"][1])
            inserts.append((bb, k, root_copy(new, pl_local(v)) if v is not None else None))
    ctx.inst(R_S, key, sites=len(inserts), sample={"inserts": [(bb, k, v) for bb, k, v in inserts]})
    pairs = set((k, v) for _, k, v in inserts if k is not None and v is not None)
    sym = any((v, k) in pairs for k, v in pairs if k != v)
    if len(inserts) < 2 or not sym:
        ctx.violation(R_S, key + "|asymmetric-enemies", "the no-merge relation is not inserted in both directions (enemies[a] gets b and enemies[b] gets a)", new.loc())
    else:
        # both on every path of the loop body: each insert block dominates the other or is dominated (straight-line)
        bbs = [bb for bb, _, _ in inserts]
        for x in bbs:
            for y in bbs:
                if x != y and not (new.dominates(x, y) or new.dominates(y, x)):
                    ctx.violation(R_S, key + "|conditional-insert", "the two symmetric insertions are not on the same paths", new.loc(x))
    # ---- remap (in try_merge)
    key = "dfir_lang|SubgraphMerge::try_merge"
    org = proto.Origins(tm)
    names = tm.var_names()
    rev = {n: l for l, n in names.items()}
    ins_u, rem_v, ins_w = [], [], []
    for bb, t in tm.calls():
        f = t.get("f")
        if not f or "HashSet" not in (f.get("impl_self", "") + f["def"]) or len(t["a"]) < 2:
            continue
        if f["name"] == "insert":
            k = entry_key(tm, org, op_place(t["a"][0]))
            v = op_place(t["a"][1])
            ins_u.append((bb, names.get(k), names.get(root_copy(tm, pl_local(v))) if v is not None else None))
        elif f["name"] == "remove":
            k = entry_key(tm, org, op_place(t["a"][0]))
            v = op_place(t["a"][1])
            rem_v.append((bb, names.get(k), names.get(root_copy(tm, pl_local(v))) if v is not None else None))
    have = set((op, k, v) for op, lst in (("insert", ins_u), ("remove", rem_v)) for _, k, v in lst)
    want = {("insert", "u", "w"), ("remove", "w", "v"), ("insert", "w", "u")}
    ctx.inst(R_R, key, sites=len(have), sample={"enemy_updates": sorted("%s enemies[%s] %s" % x for x in have if None not in x)})
    for w in sorted(want - have):
        ctx.violation(R_R, key + "|missing-remap:%s-%s-%s" % w, "merging v into u does not %s `%s` %s enemies[%s]: the incompatibility declared for v would be lost or left dangling"
                      % (w[0], w[2], "into" if w[0] == "insert" else "from", w[1]), tm.loc())


def derives_enemies(b, p):
    from util import place_has_field
    return place_has_field(p, {"enemies"}) or derives_field(b, pl_local(p), {"enemies"})


def root_copy(b, local, depth=0):
    """follow copies/refs back to a named local"""
    if depth > 8:
        return local
    for bb, idx, rv in b.defs_of(local):
        if idx == "term":
            continue
        if rv["k"] == "use":
            p = op_place(rv["ops"][0])
            if isinstance(p, int):
                return root_copy(b, p, depth + 1)
        if rv["k"] in ("ref", "refmut"):
            # `&x` or a reborrow `&*r`
            if isinstance(rv["p"], int) or list(rv["p"][1:]) == ["*"]:
                return root_copy(b, pl_local(rv["p"]), depth + 1)
    return local


def entry_key(b, org, p, depth=0):
    """for a receiver obtained as enemies.entry(k).unwrap().or_default() / enemies.get_mut(k).unwrap(): the local passed as key"""
    if p is None or depth > 10:
        return None
    l = pl_local(p)
    for bb, idx, x in b.defs_of(l):
        if idx == "term" and x["k"] == "call" and x.get("f"):
            n = x["f"]["name"]
            if n in ("entry", "get_mut", "get") and len(x["a"]) >= 2:
                kp = op_place(x["a"][1])
                return root_copy(b, pl_local(kp)) if kp is not None else None
            if x["a"]:
                return entry_key(b, org, op_place(x["a"][0]), depth + 1)
        elif idx != "term":
            if x["k"] in ("ref", "refmut"):
                return entry_key(b, org, x["p"], depth + 1)
            if x["k"] == "use":
                return entry_key(b, org, op_place(x["ops"][0]), depth + 1)
    return None


def _from_find(b, local, depth=0):
    """does the local's value come (by copies) from the result of a find() call?"""
    if depth > 6:
        return False
    for bb, idx, rv in b.defs_of(local):
        if idx == "term":
            f = rv.get("f") if rv["k"] == "call" else None
            if f and f["name"] in ("find", "find_rep", "find_root"):
                return True
            continue
        if rv["k"] == "use":
            p = op_place(rv["ops"][0])
            if isinstance(p, int) and _from_find(b, p, depth + 1):
                return True
    return False


def uf_rule(ctx, c):
    """UnionFind::union links representatives: both the slot written in `links` and the value stored there are results of find()"""
    R = ctx.rule("C17.uf", "UnionFind::union links the representative of one set to the representative of the other (slot and value both come from find())", floor=1)
    bodies = [b for d, b in c.bodies.items() if d.startswith("dfir_lang::union_find::") and d.endswith("::union") and b.kind == "AssocFn"]
    if not bodies:
        ctx.anchor_missing(R, "UnionFind::union")
    for b in bodies:
        key = "dfir_lang|UnionFind::union"
        writes = []
        for bb, t in b.calls():
            f = t.get("f")
            if f and f["name"] in ("index_mut", "insert") and len(t["a"]) >= 2:
                p0 = op_place(t["a"][0])
                if p0 is None or not derives_field(b, pl_local(p0), {"links"}):
                    continue
                k = op_place(t["a"][1])
                val_ok = None
                if f["name"] == "insert" and len(t["a"]) >= 3:
                    v = op_place(t["a"][2])
                    val_ok = isinstance(v, int) and _from_find(b, v)
                else:
                    # value stored through the returned reference
                    d = t.get("dst")
                    for bb2, i2, lhs, rv in b.assignments():
                        if not isinstance(lhs, int) and pl_local(lhs) == d and rv["k"] == "use":
                            v = op_place(rv["ops"][0])
                            val_ok = isinstance(v, int) and _from_find(b, v)
                writes.append((bb, isinstance(k, int) and _from_find(b, k), val_ok))
        ctx.inst(R, key, sites=len(writes), sample={"writes": writes})
        if not writes:
            ctx.anchor_missing(R, "write to `links` in UnionFind::union")
        for bb, k_ok, v_ok in writes:
            if not k_ok:
                ctx.violation(R, key + "|links-non-representative-slot", "union() re-links an element that is not the result of find(): when that element is a non-representative member of a larger set "
                              "only it is moved and the rest of its set is left behind (connectivity answers become wrong)", b.loc(bb))
            if v_ok is False:
                ctx.violation(R, key + "|links-to-non-representative", "union() stores a link target that is not the result of find()", b.loc(bb))


def _key_root(b, op, depth=0):
    """canonical name of the key a lookup uses: follows copies back to the defining local / tuple field"""
    p = op_place(op)
    if p is None or depth > 8:
        return None
    if not isinstance(p, int):
        return pl_str(p)
    defs = b.defs_of(p)
    if len(defs) == 1 and defs[0][1] != "term" and defs[0][2]["k"] == "use":
        o = defs[0][2]["ops"][0]
        pp = op_place(o)
        if pp is not None:
            return _key_root(b, o, depth + 1) if isinstance(pp, int) else pl_str(pp)
    return "_%d" % p


def _lookup_of(b, op, depth=0):
    """(self field, key root) when the operand is a value loaded from `self.<field>[key]`"""
    p = op_place(op)
    if p is None or depth > 8:
        return None
    l = pl_local(p)
    defs = b.defs_of(l)
    if len(defs) != 1:
        return None
    bb, idx, rv = defs[0]
    if idx == "term":
        f = rv.get("f") or {}
        if f.get("name") == "index" and len(rv.get("a", [])) == 2:
            r = op_place(rv["a"][0])
            rdefs = b.defs_of(pl_local(r)) if r is not None else []
            for _bb, _i, rrv in rdefs:
                if _i != "term" and rrv["k"] in ("ref", "refmut") and pl_local(rrv["p"]) == 1:
                    flds = mir.pl_fields(rrv["p"])
                    if flds:
                        return (flds[0], _key_root(b, rv["a"][1]))
        return None
    if rv["k"] == "use":
        return _lookup_of(b, rv["ops"][0], depth + 1)
    if rv["k"] == "agg":
        return None
    return None


def _lookup_of_place(b, op, depth=0):
    """like _lookup_of, but also sees through `(a, b)` tuples that are immediately destructured (`let (x_idx, x_len) = (..[k], ..[k])`)"""
    r = _lookup_of(b, op, depth)
    if r is not None:
        return r
    p = op_place(op)
    if p is None or depth > 8:
        return None
    l = pl_local(p)
    defs = b.defs_of(l)
    if len(defs) != 1 or defs[0][1] == "term":
        return None
    rv = defs[0][2]
    if rv["k"] == "use":
        src = op_place(rv["ops"][0])
        if src is not None and not isinstance(src, int):
            # a tuple field `_45.1`: find the aggregate that defines _45 and take its matching operand
            base = pl_local(src)
            projs = [x for x in src[1:] if isinstance(x, str) and x.startswith(".")]
            if len(projs) == 1:
                try:
                    fi = int(projs[0][1:].split(":")[0])
                except ValueError:
                    return None
                for _bb, _i, arv in b.defs_of(base):
                    if _i != "term" and arv["k"] == "agg" and fi < len(arv["ops"]):
                        return _lookup_of_place(b, arv["ops"][fi], depth + 1)
        elif src is not None:
            return _lookup_of_place(b, rv["ops"][0], depth + 1)
    return None


def pairing_rule(ctx, c):
    """SubgraphMerge keeps two per-subgraph maps (`sg_idx`: where the subgraph's nodes start in the toposort vector, `sg_len`: how many there are). A window
    `idx .. idx + len` only denotes a subgraph's nodes when both numbers are looked up with the same key; after `(u, v)` are re-ordered a length read with the
    old name belongs to the other subgraph."""
    R = ctx.rule("C17.pairing", "in SubgraphMerge, an offset and a length that are added together were looked up in self's per-subgraph maps with the same key", floor=3)
    n = 0
    for d, b in sorted(c.bodies.items()):
        if "graph_algorithms" not in d or "SubgraphMerge" not in fn_key(c, b) and "{impl#0}" not in d:
            continue
        if c.is_test_path(d):
            continue
        for bb in range(b.n):
            if b.is_cleanup(bb):
                continue
            for st in b.stmts(bb):
                if "lhs" not in st or st["rv"]["k"] != "bin" or not st["rv"]["op"].startswith("Add"):
                    continue
                a, bop = st["rv"]["ops"]
                la, lb = _lookup_of_place(b, a), _lookup_of_place(b, bop)
                if la is None or lb is None or la[0] == lb[0]:
                    continue
                n += 1
                key = "dfir_lang|%s|%s+%s#%d" % (fn_key(c, b), la[0], lb[0], n)
                ctx.inst(R, key, sample={"line": st.get("ln"), "left": la, "right": lb})
                if la[1] != lb[1]:
                    ctx.violation(R, "dfir_lang|%s|%s[%s]+%s[%s]" % (fn_key(c, b), la[0], "k1", lb[0], "k2"), "`%s[..] + %s[..]` combines values looked up with different keys (%s vs %s): the window "
                                  "no longer covers the nodes of one subgraph" % (la[0], lb[0], la[1], lb[1]), "%s:%s" % (b.file, st.get("ln")))
