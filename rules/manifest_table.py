"""Claimed checks: property -> manifest texts."""
NOT_APPLICABLE_EXTRA = {}
CHECKS = {
    "C12": {
        "text": "Partial, static: decides the three protocol clauses of the statement on every path of the generic MIR of all 24 Push/PushVariadic impls and the "
                "Push adapters (SinkCompat, SendPush): each downstream start_send is dominated by a successful poll_ready on that downstream (typestate, own "
                "start_send justified by the summary of own poll_ready), finalize succeeds only after every downstream finalized, no send is repeatable on a "
                "re-polled poll_* call, and the SendPush driver finalizes only after Ended and completes only after finalize. It does NOT decide which items "
                "are forwarded or their order (value-level).",
        "note": "Trusted: rustc MIR construction on nightly (cfg(nightly) differs from stable only in pull/collect.rs), pin-project-lite projections are field "
                "projections, core/alloc/std callees cannot call Push methods on a downstream handed to them.",
        "technique": "typestate dataflow + must-pass-through + re-poll cycle analysis on rustc MIR (custom rustc_private driver)",
    },
    "C14": {
        "text": "Partial, static: on every path of the generic MIR of the 14 Sink impls + 2 SinkVariadic impls of sinktools and the send_iter/send_stream driver "
                "futures: inner start_send is dominated by inner poll_ready -> Ready(Ok) (collections: a chained try_fold over all elements readies `coll.*`; a "
                "receiver obtained through entry()/or_insert* counts as possibly fresh), flush/close succeed only after the inner ones, no send is repeatable on "
                "re-poll, no inner Result is discarded, drivers flush before completing. LazySink/LazySinkHalf's enum-state-dependent readiness is a documented table "
                "exception (their in-poll sends are still checked). One genuine finding (LazyDemuxSink) is listed in known_findings.txt. Routing by key and "
                "ordering are NOT decided.",
        "note": "Trusted: rustc MIR construction on nightly, pin-project-lite, core/alloc/std callees cannot call Sink methods on a sink handed to them.",
        "technique": "typestate dataflow with trace partitioning on rustc MIR (custom rustc_private driver)",
    },
    "C16": {
        "text": "Partial, static (waker discipline of dfir_rs::util::unsync::mpsc, all paths of the MIR): every non-propagated Poll::Pending return passes through a "
                "store of the caller's waker; every successful pop_front is followed by a sender wake and every push_back by a receiver wake on all paths to return; "
                "close wakes all senders, Sender::drop wakes the receiver; the capacity wake-up wakes every registered sender unless registrations are deduplicated "
                "(this rule found the stranded-sender defect, repaired by a fix: commit). FIFO order/losslessness of values is NOT decided (VecDeque semantics).",
        "note": "Trusted: std VecDeque/SmallVec/RefCell, Waker contract; the rules are necessary conditions for 'a waiting side is woken when capacity or data becomes available'.",
        "technique": "must-pass-through (path) rules + waker-list policy rule on rustc MIR",
    },
    "C11": {
        "text": "Partial, static: ownership (linearity) analysis on the drop-elaborated MIR of all 33 Pull::pull impls of dfir_pipes (and their closures): every item bound "
                "out of an upstream Ready result is moved onward on every path - in particular on the paths that return Pending/Ended because a second upstream was not "
                "ready (Zip, ZipLongest, CrossSingleton, Chain, FlatMap*, Flatten*, FilterMapAsync, SymmetricHashJoin); intentional discards (filter, skip, skip_while, "
                "take_while terminator, join probing by reference) are table entries. Also: a combinator with upstreams returns Pending only when an upstream "
                "pended in that call (else nobody registered a waker), and Fuse's ended-typestate. Item order, size hints and equality with iterator semantics are NOT "
                "decided; payloads discarded through wildcard patterns are not examined.",
        "note": "Trusted: rustc drop elaboration (-Zmir-opt-level=0): a remaining Drop terminator is a real drop on some path.",
        "technique": "ownership/linearity may-dataflow on drop-elaborated MIR + must-pass-through rules",
    },
    "C15": {
        "text": "Partial, static, on MergeSource::poll_next and TaggedSource::poll_next: a payload polled from a source flows to the return value and its holder is never "
                "overwritten or dropped while it may hold it (flow-sensitive: catches a deleted `break`); the tag of every yielded item is the source's own id field; "
                "Ready(None) is returned only under sources.is_empty(), and a source is removed only on its own Ready(None). Fairness, cursor arithmetic and per-sender "
                "order are NOT decided (value-level).",
        "note": "One table exception: the static drop of `out` on the is_empty() return is dynamically infeasible (reason in rules/exceptions_table.py).",
        "technique": "ownership may-dataflow + dominance rules on rustc MIR",
    },
    "C27": {
        "text": "Static, near-complete for the stated clause: the runner uses the flag + AtomicWaker pattern, whose proof obligations are ordering facts on a handful of "
                "call sites; all are decided on the MIR for every function of dfir_rs that touches the flag or the waker (no frozen function list): store(true) dominates "
                "AtomicWaker::wake; register dominates the deciding load and every Pending passes register; every clear of the flag (store/swap false) is followed by a tick "
                "on all paths or its old value decides a tick / is returned; any other mutating access is reported. Async fns are analysed on their pre-lowering coroutine MIR.",
        "note": "Trusted: futures::task::AtomicWaker's contract, the executor. Memory-ordering strength is not judged.",
        "technique": "dominator / must-pass-through ordering rules on rustc MIR incl. coroutine bodies",
    },
}
