"""Claimed checks: property -> manifest texts."""
NOT_APPLICABLE_EXTRA = {}
CHECKS = {
    "C12": {
        "text": "Partial, static: decides the three protocol clauses of the statement on every path of the generic MIR of all 24 Push/PushVariadic impls and the "
                "Push adapters (SinkCompat, SendPush): each downstream start_send is dominated by a successful poll_ready on that downstream (typestate, own "
                "start_send justified by the summary of own poll_ready), finalize succeeds only after every downstream finalized, no send is repeatable on a "
                "re-polled poll_* call, and the SendPush driver finalizes only after Ended and completes only after finalize. It does NOT decide which items "
                "are forwarded or their order (value-level).",
        "note": "Trusted: rustc MIR construction on nightly (cfg(nightly) differs from stable only in pull/collect.rs), pin-project-lite projections are field "
                "projections, core/alloc/std callees cannot call Push methods on a downstream handed to them.",
        "technique": "typestate dataflow + must-pass-through + re-poll cycle analysis on rustc MIR (custom rustc_private driver)",
    },
}
