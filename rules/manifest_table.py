"""Claimed checks: property -> manifest texts."""
NOT_APPLICABLE_EXTRA = {}
CHECKS = {
    "C12": {
        "text": "Partial, static: decides the three protocol clauses of the statement on every path of the generic MIR of all 24 Push/PushVariadic impls and the "
                "Push adapters (SinkCompat, SendPush): each downstream start_send is dominated by a successful poll_ready on that downstream (typestate, own "
                "start_send justified by the summary of own poll_ready), finalize succeeds only after every downstream finalized, no send is repeatable on a "
                "re-polled poll_* call, and the SendPush driver finalizes only after Ended and completes only after finalize. It does NOT decide which items "
                "are forwarded or their order (value-level).",
        "note": "Trusted: rustc MIR construction on nightly (cfg(nightly) differs from stable only in pull/collect.rs), pin-project-lite projections are field "
                "projections, core/alloc/std callees cannot call Push methods on a downstream handed to them.",
        "technique": "typestate dataflow + must-pass-through + re-poll cycle analysis on rustc MIR (custom rustc_private driver)",
    },
    "C14": {
        "text": "Partial, static: on every path of the generic MIR of the 14 Sink impls + 2 SinkVariadic impls of sinktools and the send_iter/send_stream driver "
                "futures: inner start_send is dominated by inner poll_ready -> Ready(Ok) (collections: a chained try_fold over all elements readies `coll.*`; a "
                "receiver obtained through entry()/or_insert* counts as possibly fresh), flush/close succeed only after the inner ones, no send is repeatable on "
                "re-poll, no inner Result is discarded, drivers flush before completing. LazySink/LazySinkHalf's enum-state-dependent readiness is a documented table "
                "exception (their in-poll sends are still checked). One genuine finding (LazyDemuxSink) is listed in known_findings.txt. Routing by key and "
                "ordering are NOT decided.",
        "note": "Trusted: rustc MIR construction on nightly, pin-project-lite, core/alloc/std callees cannot call Sink methods on a sink handed to them.",
        "technique": "typestate dataflow with trace partitioning on rustc MIR (custom rustc_private driver)",
    },
    "C16": {
        "text": "Partial, static (waker discipline of dfir_rs::util::unsync::mpsc, all paths of the MIR): every non-propagated Poll::Pending return passes through a "
                "store of the caller's waker; every successful pop_front is followed by a sender wake and every push_back by a receiver wake on all paths to return; "
                "close wakes all senders, Sender::drop wakes the receiver; the capacity wake-up wakes every registered sender unless registrations are deduplicated "
                "(this rule found the stranded-sender defect, repaired by a fix: commit). FIFO order/losslessness of values is NOT decided (VecDeque semantics).",
        "note": "Trusted: std VecDeque/SmallVec/RefCell, Waker contract; the rules are necessary conditions for 'a waiting side is woken when capacity or data becomes available'.",
        "technique": "must-pass-through (path) rules + waker-list policy rule on rustc MIR",
    },
    "C11": {
        "text": "Partial, static: ownership (linearity) analysis on the drop-elaborated MIR of all 33 Pull::pull impls of dfir_pipes (and their closures): every item bound "
                "out of an upstream Ready result is moved onward on every path - in particular on the paths that return Pending/Ended because a second upstream was not "
                "ready (Zip, ZipLongest, CrossSingleton, Chain, FlatMap*, Flatten*, FilterMapAsync, SymmetricHashJoin); intentional discards (filter, skip, skip_while, "
                "take_while terminator, join probing by reference) are table entries. Also: a combinator with upstreams returns Pending only when an upstream "
                "pended in that call (else nobody registered a waker), and Fuse's ended-typestate. Item order, size hints and equality with iterator semantics are NOT "
                "decided; payloads discarded through wildcard patterns are not examined.",
        "note": "Trusted: rustc drop elaboration (-Zmir-opt-level=0): a remaining Drop terminator is a real drop on some path.",
        "technique": "ownership/linearity may-dataflow on drop-elaborated MIR + must-pass-through rules",
    },
    "C15": {
        "text": "Partial, static, on MergeSource::poll_next and TaggedSource::poll_next: a payload polled from a source flows to the return value and its holder is never "
                "overwritten or dropped while it may hold it (flow-sensitive: catches a deleted `break`); the tag of every yielded item is the source's own id field; "
                "Ready(None) is returned only under sources.is_empty(), and a source is removed only on its own Ready(None); every compaction of a source list adjusts the poll cursor inside the retain predicate (sibling agreement of the "
                "three merged sources - a necessary condition of 'served within one round'). The cursor arithmetic itself and per-sender order are NOT decided (value-level).",
        "note": "One table exception: the static drop of `out` on the is_empty() return is dynamically infeasible (reason in rules/exceptions_table.py).",
        "technique": "ownership may-dataflow + dominance rules + sibling-implementation cross-check on rustc MIR",
    },
    "C27": {
        "text": "Static, near-complete for the stated clause: the runner uses the flag + AtomicWaker pattern, whose proof obligations are ordering facts on a handful of "
                "call sites; all are decided on the MIR for every function of dfir_rs that touches the flag or the waker (no frozen function list): store(true) dominates "
                "AtomicWaker::wake; register dominates the deciding load and every Pending passes register; every clear of the flag (store/swap false) is followed by a tick "
                "on all paths or its old value decides a tick / is returned; any other mutating access is reported. Async fns are analysed on their pre-lowering coroutine MIR.",
        "note": "Trusted: futures::task::AtomicWaker's contract, the executor. Memory-ordering strength is not judged.",
        "technique": "dominator / must-pass-through ordering rules on rustc MIR incl. coroutine bodies",
    },
    "C01": {
        "text": "Partial, static (structural necessary conditions of ACI, decided on the MIR of all Merge/LatticeFrom impls of `lattices`): product lattices generated by "
                "derive(Lattice) (Pair) merge every field on every path (a `||` short-circuit or early return is reported); every Merge/LatticeFrom/IsBot/PartialOrd capability "
                "an impl's where-clause demands is exercised by its body or a closure/helper reachable from it (a silently dropped nested merge or conversion leaves its bound "
                "unused); Point::merge returns only through the values-equal edge. ACI on values (Max's comparison direction, VecUnion lengths, UnionFind, backing collections) "
                "is NOT decided.",
        "note": "Oracle = the impls' own where-clauses. GHT impls are excluded (their merge goes through merge_node; C08 is not applicable). One table exception (a superfluous bound in WithTop).",
        "technique": "bound-use (HIR predicates vs resolved MIR calls) + must-pass-through rules on rustc MIR",
    },
    "C02": {
        "text": "Partial, static (flag discipline of all 17 Merge impls incl. GHT, on the MIR, all paths): the bool of every nested merge is consumed (flows to the result or decides a "
                "branch/assert); a constant `false` is never returned on a path on which *self was definitely assigned; a constant `true` is never returned on a path on which "
                "nothing can have mutated *self; length-derived flags read the old len() before and the new len() after every mutation. Exactness on values (`<` vs `<=`) is NOT decided.",
        "note": "Assumes a call receiving no &mut into *self and no closure cannot mutate *self. One table exception (DomPair's incomparable-keys arm).",
        "technique": "def-use consumption + must/may write dataflow + dominance on rustc MIR",
    },
    "C03": {
        "text": "Partial, static: every IsBot/IsTop/PartialOrd/PartialEq capability demanded by the where-clause of each comparison/bottom/top impl of `lattices` (113 impls) is exercised "
                "- this is the 'bottom entries are invisible' clause (MapUnion/WithBot comparisons declare `Val: IsBot` because they must filter); derive(Lattice) output answers "
                "`true` only after consulting every field; each lattice with a cross-representation Merge has PartialOrd and PartialEq against the same shape. That the computed "
                "order equals the merge-induced order on values is NOT decided.",
        "note": "Oracle = the impls' own where-clauses and the sibling impls.",
        "technique": "bound-use + must-pass-through + sibling-impl cross-check on rustc MIR / impl facts",
    },
    "C05": {
        "text": "Partial, static: for both tombstone lattices (set and map), on the MIR of merge: the elements extended into the live collection come (by def-use through the iterator "
                "adaptor chain) from a filter whose closure tests membership in self.tombstones; the elements extended into self.tombstones come from an inspect whose closure "
                "removes them from the live collection; the Remove/TombstoneSet/Merge/IsBot capabilities are exercised. Order-independence over histories and backend equivalence "
                "(roaring/FST) are NOT decided.",
        "note": "Necessary conditions of 'deleted stays deleted'; sibling agreement between the set and the map variant.",
        "technique": "def-use through iterator adaptors + closure call facts on rustc MIR",
    },
    "C09": {
        "text": "Partial, static: the 11 composite checkers of lattices::algebra are conjunctions; from the MIR call graph with argument wiring, the transitive set of (base law, "
                "operation/element positions) of each composite contains its textbook definition (abstract algebra is the oracle: e.g. semiring = commutative monoid(f,0) + "
                "monoid(g,1) + 0 absorbing for g + both distributivities); every component verdict is `?`-propagated and Ok(()) is reached only after all components were "
                "called. That base law checkers enumerate all tuples and test the right equation is NOT decided.",
        "note": "Parameter roles are identified by position in the public signatures.",
        "technique": "call-graph containment with argument-flow (who-must-call) on rustc MIR",
    },
    "C36": {
        "text": "Partial, static, over all 18 simulator hook impls (rustc MIR, resolved callees): (1) hooks for totally ordered inputs (selected by the TotalOrder argument of the impl's self type) "
                "and snapshot hooks remove from their pending queue only at the front (pop_front / drain from a constant 0) - necessary for 'in-order prefix' and 'snapshots never go back'; "
                "(2) in the 13 hooks that own a persistent pending queue every value taken out of the queue flows (may-taint over moves, iterator adaptors, container insertions, raw-pointer "
                "writes) into the release slot and is never dropped on a normal path - 'no pending item is lost'; (3) every release_decision sends the complete slot (directly, or from a loop "
                "that sends on every iteration and is left only when the slot is exhausted). NOT decided: the sizes the generator picks (prefix length, subset), per-key independence, forced "
                "progress of run_hooks - run-time values.",
        "note": "in-tick order hooks (SimInlineHook) are excluded from clause (2): they regroup a batch through temporary maps that are legitimately dropped when empty.",
        "technique": "who-may-call rule on resolved VecDeque methods + forward may-taint (ownership) dataflow + must-pass-through / loop-exit analysis on rustc MIR",
    },
    "C37": {
        "text": "Partial, static: a necessary condition for completeness of exhaustive simulation - the exhaustive driver can only enumerate the domains the hooks offer it. For all 15 usize ranges "
                "handed to the bolero generator in the 18 simulator hook impls, both bounds are reconstructed from MIR def-use provenance and must be: upper = len() of a collection (count or "
                "exclusive index bound), len-1 as an inclusive last index, a Fisher-Yates loop variable, or one reviewed stored length; lower = 0, the forced-progress 0|1, an earlier draw or a "
                "loop variable - no clamping or other arithmetic; and for the seven hooks that pick elements one at a time, on the control-flow graph specialised to force_nontrivial == false every "
                "removal is preceded by a boolean draw that can decline it (the empty subset and every early stop are offered). NOT decided: that bolero enumerates each offered domain completely, that every order of ready ticks/observations is offered, "
                "and that the NoOrder min_index pruning only removes intra-batch permutations.",
        "note": "an unrecognised rewrite of a bound is reported (fail closed) with the reconstructed expression.",
        "technique": "def-use provenance reconstruction of generator domains on rustc MIR, matched against an enumerated set of accepted bound forms",
    },
    "C38": {
        "text": "Claimed as an absence argument: a replay with the same decision input can only diverge through a source of nondeterminism other than the recorded decisions. "
                "Every non-test body of hydro_lang::sim::{runtime,compiled} (type-checked MIR) is scanned: no iteration in hash order over a RandomState HashMap/HashSet/"
                "SparseSecondaryMap (detected by receiver type, incl. IntoIterator::into_iter, retain, drain, Flatten - the cases the repo's clippy configuration cannot express), "
                "except sites whose consumer is recognised order-insensitive or that are reviewed table entries; no clock, OS randomness, pointer-to-integer cast, thread "
                "spawn; randomness enters only through the bolero driver. Determinism of user closures and of tokio's current-thread scheduler is assumed.",
        "note": "Trusted: FxHashMap iteration is a function of insertion history; environment variables are inputs.",
        "technique": "exhaustive type-based call scan (who-may-call / disallowed-source rule) on rustc MIR with consumer classification",
    },
    "C41": {
        "text": "Partial, static: the Hydro code generator writes DFIR surface syntax as text templates that are only checked against dfir_lang's operator table when the user's crate is "
                "built. Decided: every operator invocation in those templates (emit_core, production and simulator builders, deploy glue; 165 today, incl. 8 whose name is interpolated "
                "from a closed set of literals) names an operator dfir_lang defines, with exactly its num_args arguments, persistence-lifetime and type-argument counts inside its ranges, "
                "and only input ports it declares. NOT decided: that arbitrary compositions partition without same-tick cycles or that the Rust inside the templates type-checks "
                "(quantifies over programs).",
        "note": "writer/reader table agreement; both sides are read from the current source with syn on every run.",
        "technique": "writer/reader table cross-check: template tokenisation of the generator (syn) against OperatorConstraints constants (syn)",
    },
    "C42": {
        "text": "Claimed as an absence argument over the generators: every non-test body of dfir_lang and of hydro_lang (except viz, the sim runtime and telemetry) is scanned on the "
                "type-checked MIR: no hash-order iteration over RandomState collections reaches generated output (type-based detection incl. into_iter/retain/drain/Flatten; "
                "consumers classified: sorted after collect, collected into a map/set by pure adaptors, all/any/count/sum; remaining sites are a reviewed table with reasons), no "
                "pointer-to-integer cast / clock / randomness / thread spawn outside stageleft-quoted (q!) runtime code, and the one ASLR-dependent value stored "
                "(BacktraceElement.addr) is never read. Determinism of syn/proc_macro2/prettyplease/serde_json is trusted.",
        "note": "Environment variables are treated as inputs of a compilation. slotmap's SparseSecondaryMap serialises in key order (read in slotmap 1.1.1).",
        "technique": "exhaustive type-based call scan (disallowed-source rule) on rustc MIR with consumer classification and a reviewed site table",
    },
    "C17": {
        "text": "Partial, static, on SubgraphMerge (MIR, all paths): UnionFind::union in try_merge is dominated by the 'not enemies' edge of the enemies lookup and by the exhaustion "
                "of the cycle search; no other function unions the membership structure; the no-merge relation is inserted symmetrically and remapped element-wise on a merge "
                "(u gains w, w loses v and gains u); the toposort windows `sg_idx[k] .. sg_idx[k]+sg_len[k]` pair offset and length under the same key. Correctness of topo_sort, of the "
                "window re-sort itself and 'refuses only when necessary' are NOT decided.",
        "note": "Necessary conditions for 'never merges two incompatible nodes' and 'never creates a cycle between groups'.",
        "technique": "dominance / who-may-call / argument-flow rules on rustc MIR",
    },
    "C18": {
        "text": "Partial, static, on flat_to_partitioned.rs (MIR, all paths): a destination input that declares a delay is recorded as barrier pair AND tick edge on exactly the same "
                "paths; the no-merge set given to the merger is fed by the barrier pairs, the access-group pairs and the handoff-reference producers; a merge is attempted only "
                "inside one loop context; the delay of a split edge moves to the handoff's out-edge and reaches set_handoff_delay_type. 'Single pull-then-push pipeline' and "
                "toposort validity for every graph are NOT decided (the code asserts the latter at run time).",
        "note": "Operator-table facts (which operators declare delays) are read with syn and reported in C24/C26 evidence.",
        "technique": "must-pass-through / backward argument-flow / dominance rules on rustc MIR",
    },
    "C19": {
        "text": "Partial, static: the predecessor map handed to the topological sorter receives every pipe edge that is not a tick edge (push dominated by the not-contained edge of "
                "tick_edges.contains_key, the contained edge pushes nothing), handoff-reference producers, access-group pairs and loop-ingress constraints, and the sorter's "
                "predecessor closure reads that map; partition_graph has exactly one error path, fed by the cycle returned from SubgraphMerge::new, and the diagnostic is built "
                "from that cycle. That topo_sort's cycle is genuine is NOT decided here.",
        "note": "Necessary conditions for 'rejects exactly the graphs with same-tick cycles'.",
        "technique": "dominance + error-path enumeration on rustc MIR",
    },
    "C20": {
        "text": "Partial, static: the JSON round trip of the meta graph cannot silently drop state: every #[serde(skip)] field of every serialised dfir_lang type (read with syn) is "
                "either presentation-only (Span) or written by a function that Dfir::new calls on its JSON path (call-graph reachability on MIR), and on that path deserialisation "
                "is followed by the rebuild on every path. Wiring preservation of union/tee removal and module merging is NOT decided; serde's derive is trusted for non-skipped fields.",
        "note": "dfir_rs is analysed with its default features (incl. `meta`).",
        "technique": "attribute scan (syn) + who-writes / call-graph reachability + must-pass-through on rustc MIR",
    },
    "C22": {
        "text": "Partial, static ('all compile or all fail' side): the colouring relation can_connect_colorize is read off its compiled match by evaluating all 25 (Option<Color>, "
                "Option<Color>) cases on the MIR: it is total, never joins Push->Pull / Comp->Pull / Comp->Comp / a handoff, and accepts every legal pull-then-push pair; each of the "
                "16 operator generators that unconditionally assert one placement has an arity table for which DfirGraph::node_color forces exactly that placement (operator table "
                "read with syn), and no generator panics on one placement only. On the 'same outputs' side one structural necessary condition is decided: every eager drain of an operator input in "
                "the emitted code (Pull::for_each / accumulate helpers, followed through interpolated sub-templates) is unconditional, so whether an upstream lazily pulled stateful "
                "operator is driven on a tick does not depend on data. Equality of outputs between placements in general is NOT decided.",
        "note": "node_color's degree rule is transcribed in the checker and cross-checked against the 16 asserting operators.",
        "technique": "decision-table extraction by enum-domain evaluation of MIR + operator-table consistency and template nesting analysis (syn)",
    },
    "C28": {
        "text": "Partial, static: the three mechanisms the property names. (1) Type gates: the proof-marker tables (ValidCommutativityFor, ValidIdempotenceFor, the four ValidMut*For tables incl. "
                "`F: Fn` on their WAS_MUT=false impls) are evaluated from the impl headers over their finite domains; every ground instantiation admitted by the where-clauses of every "
                "HydroNode-constructing API function (a finite-domain trait solver built from the crate's own impl table) must satisfy: aggregations over unordered/duplicated inputs carry "
                "proofs, public casts without a NonDet guard strengthen nothing (order, retries, boundedness), public builders of Batch/ObserveNonDet/MergeOrdered take a NonDet guard. "
                "(2) emit_core (MIR guard analysis): 'static state lifetimes only on the true edge of is_top_level(), 'tick never on it. (3) fold_no_replay/reduce_no_replay selected under "
                "is_top_level() && is_bounded(), join's multiset_delta() under is_top_level(). (4) In the watermarked keyed reduce the arrival guard and the retain predicate are complementary comparisons, so the fate of a key "
                "does not depend on whether it or the watermark arrives first. Determinism of the composed program over tick partitions is NOT decided. One genuine defect "
                "found by rule (1) (weaken_boundedness accepted Unbounded -> Bounded) was repaired by a fix: commit.",
        "note": "Node typing rules are stated from the documented semantics of the IR nodes; library-internal fabricated guards are reviewed under C32.",
        "technique": "finite-domain evaluation of the type-level API (impl-table trait solver over marker types) + branch-guard dominance analysis on rustc MIR",
    },
    "C29": {
        "text": "Partial, static: the ordering/retry guarantees are a type-level encoding; decided: the encoding is sound w.r.t. the IR the API builds. Marker tables (IsOrdered, IsExactlyOnce, "
                "IsBounded, MinOrder, MinRetries, WeakerOrderingThan, WeakerRetryThan, Boundedness::PreserveOrderIfBounded) are evaluated from impl headers/associated types and compared with "
                "their documented meaning; for each of the ~180 (function, HydroNode variant) construction sites of hydro_lang::live_collections every admitted ground instantiation (~1600) "
                "satisfies the node's typing rule (element-wise nodes create neither order nor exactly-once; Enumerate/Scan need TotalOrder+ExactlyOnce; future resolution yields NoOrder; "
                "Chain/Join/JoinHalf meet rules incl. the `B2::BOUNDED` const-dependent branch). For the keyed generator (basis of keyed scan/enumerate/limit/first) the staged closure never shrinks its "
                "per-key state map and its two terminating answers leave the same tombstone (MIR of the q! closure). Run-time emission order of DFIR operators is NOT decided; per-key "
                "independence only through that clause.",
        "note": "Keyed joins are only constrained on retries (their per-key order argument is semantic).",
        "technique": "finite-domain evaluation of the type-level API (impl-table trait solver, associated-type normalisation, const-dependent path pruning on MIR)",
    },
    "C31": {
        "text": "Partial, static, one clause of four: 'all hooks of one slice are taken at the same point'. In all 31 `Slicable::slice` implementations (style wrappers and the tuple impls "
                "that fan a slice out to its `use` bindings; rustc MIR) every call argument of type &Tick is derived solely from the slice's own `tick` parameter, each non-unit impl takes "
                "at least one hook and a tuple impl of arity n takes n. NOT decided: that batches partition the input in order, that snapshots are monotone, that state hooks carry their "
                "value (execution properties; the simulator side of the first two is decided structurally under C36).",
        "note": "sliced! itself creates a single tick (macro_rules text); the check covers the code it calls.",
        "technique": "argument-provenance (def-use) rule over all implementations of one trait method on rustc MIR",
    },
    "C32": {
        "text": "Partial, static: library-internal order/retry/cardinality assumptions are enumerable, private and reviewed. The re-typing helpers (assume_*_trusted, cast_at_most_one_*, "
                "assert_has_consistency_of_trusted) are not pub and ObserveNonDet{trusted:true} is built only in them; each of their ~40 call sites is evaluated under all instantiations the "
                "caller's where-clauses admit: sites that never strengthen a guarantee are justified by types alone, every other site must be a reviewed table entry performing at most the "
                "reviewed strengthenings (so dropping `O: IsOrdered` from first(), or adding a new assumption, is reported); every NonDet guard fabricated by library code for a public "
                "nondeterministic API must be in the reviewed (function, callee) set. Reasons are the repository's own nondet! texts. That each justification is true on all inputs is NOT decided.",
        "note": "hydro_std's fabricated guards (11 sites) are outside the property's anchors and only counted.",
        "technique": "who-may-call + per-call-site finite-domain type evaluation against a reviewed instance table (rustc MIR + impl facts)",
    },
    "C33": {
        "text": "Partial, static: bound-kind tables and bound typing. The associated-type tables of KeyedSingletonBound/SingletonBound (EraseMonotonic, KeyedStreamTo(Non)Monotone, WithBoundedValue, "
                "ValueBound, UnderlyingBound, StreamToMonotone, IsKeyedMonotonic) and the ApplyMonotoneStream/ApplyMonotoneKeyedStream/ApplyOrderPreservingSingleton impls are evaluated and "
                "compared with the promise sets the kinds document; for every HydroNode-constructing API function every admitted instantiation's output bound promises nothing its input and "
                "proofs do not justify (element-wise nodes add no promise; folds promise monotone values only with a monotonicity proof or bounded input; Map/Filter/FilterMap/FlatMap over a still-changing singleton or keyed singleton value promise "
                "monotone values only with an order-preservation proof and, for filters, never promise that keys only grow). That emitted values obey the annotation is NOT decided.",
        "note": "Promise sets: Unbounded {} < MonotonicKeys {keys grow} < MonotonicValue {+values monotone} < BoundedValue {+value immutable} < Bounded {+finite}.",
        "technique": "decision-table extraction from impl facts + finite-domain evaluation of the type-level API",
    },
    "C35": {
        "text": "Partial, static; the member-id clause is decided completely: MemberId::into_tagless / from_tagless are pure projection / injection of `inner` on the MIR (no call but PhantomData's "
                "Default), hence the untyped round trip is the identity. Sibling agreement: every SerKind impl instantiates serialize and deserialize thunks at its own T, every NetworkFor impl "
                "forwards both halves to the same backend, every constructor of HydroNode::Network takes serialize_fn and deserialize_fn from the same <N as NetworkFor<T>> instance; the four code "
                "templates use one codec module for serialize/deserialize, are both parametrised by the payload type slot, and pair into_tagless (demux) with from_tagless at the sender's cluster "
                "type slot (tagged). bincode's own round trip and run-time routing are NOT decided.",
        "note": "Templates are read with syn (token trees), callers with resolved generic arguments from MIR.",
        "technique": "sibling-implementation cross-check on resolved callee generic arguments (rustc MIR) + template slot analysis (syn)",
    },
    "C21": {
        "text": "Partial, static (state-lifetime handling, the clause \"'tick state is reset, 'static state is kept\"): every one of the ~29 operators whose table entry admits a persistence "
                "argument is classified from its generator source (syn): direct — its write_fn matches on Persistence and on the Tick arm emits end-of-tick code that re-initialises (assign / clear / "
                "drain) a state identifier declared by its prologue template, and emits none on the Static / wildcard arm; delegate — it takes its whole OperatorWriteOutput from another operator and "
                "does not drop write_tick_end; restricted — it rejects all but one persistence with an error diagnostic. Unclassifiable operators are reported; a direct operator that emits different code per placement must reset under both (pull and push); a template that swaps two state buffers empties the recycled one. The values "
                "operators compute are NOT decided (needs a reference interpreter).",
        "note": "Thorough tier adds translation validation on the corpus (/verif/corpus, compiled with this tree's dfir_lang, never run): paired 'tick / 'static programs (fold, unique, join) must differ exactly by an end-of-tick state write before __end_tick().",
        "technique": "generator-template analysis (syn token trees: match arms over Persistence, reset forms, prologue slots) + operator table",
    },
    "C23": {
        "text": "Partial, static: a blocking input sees the whole tick input only if everything upstream finished first. Decided: the subgraph block template creates and awaits the subgraph future "
                "inside its own block and the pivot send_push future is awaited (syn); the subgraph list the generator iterates is subgraph_toposort() in iteration order with no reordering adaptor "
                "on its definition chain (MIR); every operator template that builds a drain future over an input (Pull::for_each / accumulate helpers, 19 templates) awaits it. Together with "
                "C12.drive (pivot completes only after Ended + finalize). That the precomputed toposort is right for every graph is NOT decided here (C18/C19 decide necessary conditions).",
        "note": "Template rules are keyed on interpolation slots and runtime API names, not on formatting. Thorough tier adds the corpus rule: in every generated tick closure each instrumented subgraph future is polled to completion before the next subgraph's block and before the end-of-tick code.",
        "technique": "generator-template analysis (syn) + definition-chain (def-use) analysis on rustc MIR",
    },
    "C24": {
        "text": "Partial, static: (counter, MIR) current_tick is written only by __end_tick/constructors; __end_tick performs exactly one checked add of TickDuration::SINGLE_TICK (whose evaluated "
                "constant is 1) on every path; schedule_subgraph(true) reaches wake_by_ref. (skeleton, syn) the one tick-closure template orders: subgraph code < schedule test over the non-lazy "
                "deferred buffers < tick-level swaps < operators' tick-end code < a single top-level __end_tick(). (laziness, MIR evaluated over all four DelayType variants) the filter feeding "
                "non_lazy_schedule_idents yields None exactly for TickLazy/LoopLazy; the tick-level swap set is exactly {Tick, TickLazy}; the back-buffer laziness flag is true exactly for *Lazy. "
                "That deferred items arrive exactly one tick later (data flow through buffers) is NOT decided.",
        "note": "Runner loop conditions (run_available re-enters run_tick iff the swapped flag was true) are decided under C27. Thorough tier adds the corpus rules on generated tick closures: one __end_tick() on every completing path outside loops, after the schedule test and the swaps; the schedule test inspects a buffer for defer_tick and is constant-false for defer_tick_lazy.",
        "technique": "who-writes + must-pass-through on rustc MIR, decision-table extraction by enum-domain evaluation of MIR closures, template order analysis (syn)",
    },
    "C26": {
        "text": "Partial, static (shape of the loop gate): on the MIR of emit_loop_gate with branch-guard analysis the keyword `if` is emitted exactly on the root-loop edge "
                "(loop_parent(..).is_none()) and `while` on the nested edge, both only under non-empty gate checks; the extra back-buffer gate checks compare with DelayType::Loop (nested) and "
                "DelayType::Tick (root) only — never a *Lazy delay (constants read from promoted MIR bodies); gated templates are `<kw> false #(|| #gate_checks)* { #child_body #(#swap_code)* }`; "
                "mark_tick_boundary_handoffs remaps Tick->Loop and TickLazy->LoopLazy only on the loop_parent(..).is_some() edge and preserves laziness (evaluated for all variants). Fixpoint "
                "semantics and windowing release are NOT decided.",
        "note": "In coroutine MIR every await is a cycle, so generated code is not analysed for loop membership; the generator-side rules are.",
        "technique": "branch-guard dominance analysis + enum-domain evaluation on rustc MIR (incl. promoted constants) + template shape (syn)",
    },
    "C30": {
        "text": "Partial, static: (typing) under every admitted instantiation of every HydroNode-constructing API function a collection located in a Tick is typed Bounded; (state) in emit_core every "
                "'static lifetime choice sits on the is_top_level()==true edge, so tick-scoped inputs get 'tick state; (deferral) the DeferTick arm of emit_core emits exactly defer_tick_lazy and no "
                "other arm emits a deferring operator; all 7 DeferTick::defer_tick / create_source_with_initial bodies build HydroNode::DeferTick on every path; Tick::cycle returns its source "
                "only through defer_tick and cycle_with_initial through create_source_with_initial, so a tick cycle cannot be closed within one tick; the initial value of such a cycle is merged only behind the first-tick gate (or as the fallback of an always-present singleton). "
                "Batch semantics of the operators are NOT decided.",
        "note": "Half-join order typing (bounded side preserves the other side's order) is decided under C29.node.",
        "technique": "finite-domain evaluation of the type-level API + branch-guard / must-pass-through analysis on rustc MIR",
    },
    "C13": {
        "text": "Partial, static (necessary structure of 'each matching pair exactly once' on the incremental path, MIR of SymmetricHashJoin::pull, all paths): an item arriving on one side is "
                "built into that side's own state and probed against the OTHER side's state, and the probe is confined to the `newly built` edge of build() (set semantics: a duplicate emits "
                "nothing again); stored matches of BOTH states are popped before any upstream is polled and a popped match is returned; each of the four return sites takes the pair's left value "
                "from the left side (components traced to the probe/pop result); HalfJoinState::clear of both state implementations resets every field. Multiset equality of the emitted pairs over "
                "all interleavings, probe()'s own bookkeeping and the drain-then-enumerate path (NewTickJoinIter) are NOT decided.",
        "note": "Added after the design phase: the first draft listed C13 as not applicable; these clauses are shape-visible necessary conditions (breaking one breaks the join).",
        "technique": "dominance / branch-guard analysis and component-wise def-use tracing on rustc MIR",
    },
    "C25": {
        "text": "Partial, static (the ordering constraints a reference creates reach the scheduler; MIR of flat_to_partitioned.rs, all paths): for every handoff reference the producer is inserted "
                "as a same-tick predecessor of the borrower and the borrower as a predecessor of the handoff's pipe consumers, never filtered by tick_edges; the access groups of one reference "
                "target are chained with overlapping windows and every member pair is emitted unconditionally; the pairs computed by find_access_group_ordering reach "
                "find_subgraph_unionfind's access_group_pairs parameter (two call hops followed); those pairs and the (producer, borrower) pairs are also no-merge pairs of the merger. "
                "That the resulting topological order is right for every graph and the resolution of singleton references are NOT decided.",
        "note": "Added in the build phase from rules shared with C18/C19 (first listed as not applicable because it depends on the partitioner's order; the constraint-feeding clauses are shape-visible).",
        "technique": "dominance / branch-guard analysis + interprocedural argument-flow (who-feeds-whom) on rustc MIR",
    },
}
