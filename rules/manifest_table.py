"""Claimed checks: property -> manifest texts."""
NOT_APPLICABLE_EXTRA = {}
CHECKS = {
    "C12": {
        "text": "Partial, static: decides the three protocol clauses of the statement on every path of the generic MIR of all 24 Push/PushVariadic impls and the "
                "Push adapters (SinkCompat, SendPush): each downstream start_send is dominated by a successful poll_ready on that downstream (typestate, own "
                "start_send justified by the summary of own poll_ready), finalize succeeds only after every downstream finalized, no send is repeatable on a "
                "re-polled poll_* call, and the SendPush driver finalizes only after Ended and completes only after finalize. It does NOT decide which items "
                "are forwarded or their order (value-level).",
        "note": "Trusted: rustc MIR construction on nightly (cfg(nightly) differs from stable only in pull/collect.rs), pin-project-lite projections are field "
                "projections, core/alloc/std callees cannot call Push methods on a downstream handed to them.",
        "technique": "typestate dataflow + must-pass-through + re-poll cycle analysis on rustc MIR (custom rustc_private driver)",
    },
    "C14": {
        "text": "Partial, static: on every path of the generic MIR of the 14 Sink impls + 2 SinkVariadic impls of sinktools and the send_iter/send_stream driver "
                "futures: inner start_send is dominated by inner poll_ready -> Ready(Ok) (collections: a chained try_fold over all elements readies `coll.*`; a "
                "receiver obtained through entry()/or_insert* counts as possibly fresh), flush/close succeed only after the inner ones, no send is repeatable on "
                "re-poll, no inner Result is discarded, drivers flush before completing. LazySink/LazySinkHalf's enum-state-dependent readiness is a documented table "
                "exception (their in-poll sends are still checked). One genuine finding (LazyDemuxSink) is listed in known_findings.txt. Routing by key and "
                "ordering are NOT decided.",
        "note": "Trusted: rustc MIR construction on nightly, pin-project-lite, core/alloc/std callees cannot call Sink methods on a sink handed to them.",
        "technique": "typestate dataflow with trace partitioning on rustc MIR (custom rustc_private driver)",
    },
    "C16": {
        "text": "Partial, static (waker discipline of dfir_rs::util::unsync::mpsc, all paths of the MIR): every non-propagated Poll::Pending return passes through a "
                "store of the caller's waker; every successful pop_front is followed by a sender wake and every push_back by a receiver wake on all paths to return; "
                "close wakes all senders, Sender::drop wakes the receiver; the capacity wake-up wakes every registered sender unless registrations are deduplicated "
                "(this rule found the stranded-sender defect, repaired by a fix: commit). FIFO order/losslessness of values is NOT decided (VecDeque semantics).",
        "note": "Trusted: std VecDeque/SmallVec/RefCell, Waker contract; the rules are necessary conditions for 'a waiting side is woken when capacity or data becomes available'.",
        "technique": "must-pass-through (path) rules + waker-list policy rule on rustc MIR",
    },
}
