"""USED rule: every lattice-capability bound in an impl's where-clause is exercised by the impl's methods."""
import re

SUPER = {
    "core::cmp::Ord": {"core::cmp::Ord", "core::cmp::PartialOrd", "core::cmp::PartialEq"},
    "core::cmp::PartialOrd": {"core::cmp::PartialOrd", "core::cmp::PartialEq"},
    "core::cmp::Eq": {"core::cmp::Eq", "core::cmp::PartialEq"},
}


def operands_of(body):
    for bb in range(body.n):
        if body.is_cleanup(bb):
            continue
        for s in body.stmts(bb):
            if "rv" in s:
                for o in s["rv"].get("ops", []):
                    yield o
        t = body.term(bb)
        if t["k"] == "call":
            for o in t["a"]:
                yield o
            if t.get("f"):
                yield {"fn": t["f"]}


def reach_uses(crate, b, depth=0, seen=None):
    """set of callee dicts (resolved or not) reachable from body b: calls, fn items passed as values, closures, same-crate helpers (depth 2)"""
    if seen is None:
        seen = set()
    if b.def_path in seen:
        return []
    seen.add(b.def_path)
    out = []
    for o in operands_of(b):
        f = o.get("fn")
        if not f:
            continue
        out.append(f)
        d = f.get("res") or f["def"]
        if d in crate.bodies and depth < 2:
            out += reach_uses(crate, crate.bodies[d], depth + 1, seen)
    for cb in crate.closures_of(b.def_path):
        if cb.def_path not in seen:
            out += reach_uses(crate, cb, depth, seen)
    return out


def pred_used(pred, uses):
    want = SUPER.get(pred["trait"], {pred["trait"]})
    ps = pred["self"]
    tok = re.compile(r"(?<![A-Za-z0-9_])" + re.escape(ps) + r"(?![A-Za-z0-9_])")
    for f in uses:
        tr = f.get("trait")
        if tr not in want:
            continue
        s = f.get("self") or ""
        if s == ps:
            return True
        if tok.search(s) or any(tok.search(a) for a in f.get("args", [])):
            return True
    return False


def impl_uses(crate, imp):
    uses = []
    for it in imp["items"]:
        if it.get("fn") and it["def"] in crate.bodies:
            uses += reach_uses(crate, crate.bodies[it["def"]])
    return uses
