"""C22 — pull/push placement (partial: 'all compile or all fail' side)."""
import mir
import enumeval
import optable
from framework import fn_key

LEVEL = "other"
COLORS = ["Pull", "Push", "Comp", "Hoff"]


def color_table(b):
    table = {}
    for s in [None] + COLORS:
        for d in [None] + COLORS:
            def oracle(pl, variants, s=s, d=d):
                projs = [x for x in pl if isinstance(x, str)]
                fld = [x for x in projs if x.startswith(".")]
                if not fld:
                    return None
                side = s if fld[0].startswith(".0") else d
                inv = {n: v for v, n in variants.items()}
                if "@Some" in projs:
                    return inv.get(side)
                return inv.get("None") if side is None else inv.get("Some")
            r, tr = enumeval.run(b, oracle)
            table[(s, d)] = r[1].get(0) if r[0] == "ret" else r[0]
    return table


def pull_forced(inn, out):
    """does DfirGraph::node_color force Pull for every arity the hard ranges admit? (0,1) or (>=2, <=1)"""
    if inn is None or out is None:
        return False
    (il, ih), (ol, oh) = inn, out
    if oh is None or oh > 1:
        return False
    if (il, ih) == (0, 0):
        return (ol, oh) == (1, 1)
    return il >= 2


def push_forced(inn, out):
    """(1,0) or (<=1, >=2)"""
    if inn is None or out is None:
        return False
    (il, ih), (ol, oh) = inn, out
    if ih is None or ih > 1:
        return False
    if (ol, oh) == (0, 0):
        return (il, ih) == (1, 1)
    return ol >= 2


def run(ctx):
    ctx.explanation = ("'All compile or all fail' needs (1) the colouring relation used while merging to be a total function that never joins Push->Pull or Comp->Pull/Comp - read off the "
                       "compiled match of can_connect_colorize by evaluating all 25 (colour, colour) cases on its MIR; (2) every operator generator that unconditionally asserts one "
                       "placement to have an arity table for which node_color forces exactly that placement, and every generator that branches on is_pull to emit code on both "
                       "branches (operator table + templates read with syn).")
    ctx.undecided = "equality of per-tick outputs between placements (needs execution)"
    c = mir.load_crate("dfir_lang")
    R_C = ctx.rule("C22.color", "can_connect_colorize is total on (Option<Color>, Option<Color>) and its `true` cases never join Push->Pull, Comp->Pull, Comp->Comp or a handoff", floor=1)
    R_B = ctx.rule("C22.both", "an operator that unconditionally asserts pull (push) placement has arities for which node_color forces pull (push); an operator branching on is_pull has no placement-dependent panic", floor=20)
    b = c.bodies.get("dfir_lang::graph::flat_to_partitioned::can_connect_colorize")
    if b is None:
        ctx.anchor_missing(R_C, "can_connect_colorize")
    else:
        t = color_table(b)
        ctx.inst(R_C, "dfir_lang|can_connect_colorize", sites=len(t), sample={"decision_table": {"%s->%s" % k: v for k, v in t.items()}})
        for (s, d), v in sorted(t.items(), key=str):
            if v not in ("true", "false"):
                ctx.violation(R_C, "dfir_lang|can_connect_colorize|not-total:%s->%s" % (s, d), "the colouring relation has no boolean answer for (%s, %s): %s" % (s, d, v), b.loc())
                continue
            bad = None
            if v == "true":
                if (s, d) in (("Push", "Pull"), ("Comp", "Pull"), ("Comp", "Comp")):
                    bad = "joins %s -> %s inside one subgraph (needs a handoff)" % (s, d)
                elif (s == "Hoff" and d is not None) or (d == "Hoff" and s is not None):
                    bad = "puts a handoff inside a subgraph"
                elif s is None and d is None:
                    bad = "connects two undetermined nodes (may create later conflicts)"
            else:
                if (s, d) in (("Pull", "Pull"), ("Push", "Push"), ("Pull", "Push"), ("Pull", "Comp"), ("Comp", "Push")):
                    bad = "refuses %s -> %s, which is a legal pull-then-push pipeline (needless handoff; shape-dependent compile results)" % (s, d)
            if bad:
                ctx.violation(R_C, "dfir_lang|can_connect_colorize|%s->%s=%s" % (s, d, v), "can_connect_colorize(%s, %s) = %s: %s" % (s, d, v, bad), b.loc())
    ops = optable.load_ops()
    if len(ops) < 70:
        ctx.anchor_missing(R_B, "operator table (found %d operators)" % len(ops))
    for op in ops:
        key = "dfir_lang|op:" + op.name
        asserts = [m for m in op.macros if m["macro"] in ("assert", "debug_assert") and "is_pull" in m["text"].split(",")[0] and not m["conds"]]
        branches = [m for m in op.templates() if any(cnd in ("if is_pull", "else-of is_pull", "if ! is_pull", "else-of ! is_pull") for cnd in m["conds"])]
        if not asserts and not branches:
            ctx.inst(R_B, key, nontrivial=False, sites=0)
            continue
        ctx.inst(R_B, key, sites=len(asserts) + len(branches), sample={"operator": op.name, "asserts": [m["text"][:40] for m in asserts], "inn": op.fields.get("hard_range_inn"),
                                                                      "out": op.fields.get("hard_range_out"), "templates_under_is_pull_branches": len(branches)})
        for m in asserts:
            cond = m["text"].split(",")[0].replace(" ", "")
            inn, out = op.rng("hard_range_inn"), op.rng("hard_range_out")
            if cond == "is_pull" and not pull_forced(inn, out):
                ctx.violation(R_B, key + "|assert-pull-not-forced", "`%s` asserts pull placement, but its arity table (%s in, %s out) lets node_color place it on the push side or leave it "
                              "undetermined: some shapes of the same program would panic the compiler" % (op.name, op.fields.get("hard_range_inn"), op.fields.get("hard_range_out")),
                              "%s:%s" % (op.file, m["line"]))
            if cond == "!is_pull" and not push_forced(inn, out):
                ctx.violation(R_B, key + "|assert-push-not-forced", "`%s` asserts push placement, but its arity table (%s in, %s out) does not force it" % (op.name, op.fields.get("hard_range_inn"), op.fields.get("hard_range_out")),
                              "%s:%s" % (op.file, m["line"]))
        if branches and not asserts:
            for m in op.macros:
                if m["macro"] in ("panic", "todo", "unimplemented", "unreachable") and any("is_pull" in cnd for cnd in m["conds"]) and not any("len" in cnd for cnd in m["conds"]):
                    ctx.violation(R_B, key + "|placement-dependent-panic", "`%s` panics on one placement only" % op.name, "%s:%s" % (op.file, m["line"]))
    drainall_rule(ctx)


DRAIN_RE = r"Pull :: for_each \(|pull :: accumulate\w* \("


def _enclosing(t, pos):
    """kinds of the conditional / loop groups enclosing token position `pos` of a template. An `if` whose every branch (there must be a final `else`) also
    drains is not counted: the input is pulled whichever way the condition goes."""
    toks = t.split(" ")
    # token index of the character position
    acc = 0
    target = None
    for i, tok in enumerate(toks):
        if acc >= pos:
            target = i
            break
        acc += len(tok) + 1
    if target is None:
        target = len(toks)
    # brace matching
    match = {}
    st = []
    for i, tok in enumerate(toks):
        if tok == "{":
            st.append(i)
        elif tok == "}" and st:
            o = st.pop()
            match[o] = i
    stack = []
    last_kw = None
    last_kw_at = None
    for i, tok in enumerate(toks[:target]):
        if tok in ("if", "while", "for", "match", "else", "loop"):
            if not (tok == "if" and last_kw == "else" and last_kw_at == i - 1):
                last_kw, last_kw_at = tok, i
            else:
                last_kw, last_kw_at = "else", i      # `else if`: still part of the chain
        if tok == "{":
            stack.append((last_kw, i))
            last_kw = None
        elif tok == "}":
            if stack:
                stack.pop()
        elif tok == ";":
            last_kw = None
    out = []
    for kw, o in stack:
        if not kw:
            continue
        if kw in ("if", "else") and _all_branches_drain(toks, match, o):
            continue
        out.append(kw)
    return out


def _all_branches_drain(toks, match, o):
    """`o` opens one block of an if / else-if / else chain: does the chain end in a plain `else` and does every block of it contain a drain?"""
    import re

    def head(bo):
        """tokens between the previous `{` / `}` / `;` and this block's `{`"""
        j = bo - 1
        while j >= 0 and toks[j] not in ("{", "}", ";"):
            j -= 1
        return j, toks[j + 1:bo]
    blocks = [o]
    cur = o
    while True:
        j, h = head(cur)
        if j >= 0 and toks[j] == "}" and h[:1] == ["else"]:
            prev_open = [a_ for a_, b_ in match.items() if b_ == j]
            if not prev_open:
                break
            cur = prev_open[0]
            blocks.insert(0, cur)
        else:
            break
    cur = blocks[-1]
    while cur in match:
        c = match[cur]
        if c + 1 < len(toks) and toks[c + 1] == "else":
            k = c + 2
            while k < len(toks) and toks[k] != "{":
                k += 1
            if k >= len(toks):
                break
            blocks.append(k)
            cur = k
        else:
            break
    if len(blocks) < 2 or head(blocks[-1])[1] != ["else"]:
        return False
    for bo in blocks:
        if bo not in match:
            return False
        body = " ".join(toks[bo:match[bo] + 1])
        if not re.search(DRAIN_RE, body):
            return False
    return True



def drainall_rule(ctx):
    """an operator that drains one of its pull inputs eagerly does so unconditionally: a drain nested under `if`/`match`/`while` inside the emitted code leaves the
    input un-pulled on some ticks, and what a lazily pulled stateful operator upstream then sees depends on whether it shares the subgraph (pull) or sits
    behind a handoff (push, always driven). Sub-templates bound with `let` and interpolated (`#name`) are followed."""
    import re
    import synfacts
    R = ctx.rule("C22.drainall", "eager drains of operator inputs (Pull::for_each / accumulate helpers, directly or through an interpolated sub-template) are not nested under a run-time conditional in the emitted code", floor=15)
    d = synfacts.scan_dir("dfir_lang/src/graph/ops")
    for f, v in sorted(d.items()):
        # template variables of each generator fn that carry a drain (fixpoint over `let name = quote!{..}` / match-of-quotes)
        carriers = {}
        lets = [l for l in v["lets"] if "quote" in l["init"]]
        changed = True
        while changed:
            changed = False
            for l in lets:
                key = (l["fn"], l["pat"].replace("mut ", "").strip())
                if key in carriers:
                    continue
                t = l["init"]
                if re.search(DRAIN_RE, t) or any(re.search(r"# %s\b" % re.escape(n), t) for (fn, n) in carriers if fn == l["fn"]):
                    carriers[key] = l["line"]
                    changed = True
        idx = 0
        for m in v["macros"]:
            if m["macro"] not in ("quote", "quote_spanned"):
                continue
            t = m["text"]
            names = [n for (fn, n) in carriers if fn == m["fn"]]
            pat = DRAIN_RE + "".join(r"|# %s\b" % re.escape(n) for n in names)
            for mm in re.finditer(pat, t):
                idx += 1
                cond = _enclosing(t, mm.start())
                k = "dfir_lang|%s|drain#%d" % (f.split("/")[-1], idx)
                ctx.inst(R, k, sample={"line": m["line"], "what": mm.group(0), "enclosing": cond})
                if cond:
                    ctx.violation(R, k + "|conditional-drain", "an input drain (%s) is nested under `%s` inside the operator's emitted code: on ticks where the condition fails the input is not "
                                  "pulled, so results depend on pull/push placement of the upstream operator" % (mm.group(0).strip(" ("), cond[-1]), "%s:%s" % (f, m["line"]))
