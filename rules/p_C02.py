"""C02 — merge's changed-flag (partial: flag discipline)."""
import mir
from framework import fn_key, short_ty
from lattice_common import lattice_impls, impl_key
from mir import op_place, pl_local, pl_projs, pl_fields, forward_dataflow
import proto

LEVEL = "other"


def bool_results(body):
    """(bb, dst local, what) for calls whose bool result is a component's changed-flag: nested Merge::merge, UnionFind::union.."""
    out = []
    for bb, t in body.calls():
        f = t.get("f")
        if not f or not isinstance(t.get("dst"), int):
            continue
        if f.get("trait") == "lattices::Merge" and f["name"] == "merge":
            out.append((bb, t["dst"], "Merge::merge"))
        elif f["name"] == "merge_node":
            out.append((bb, t["dst"], "merge_node"))
    return out


def value_consumed(body, local, seen=None):
    """is the value of `local` read by something that lets it influence the result: copied/combined into another
    value that is itself consumed, written through a reference (captured `&mut changed`), switched on, asserted, or returned"""
    if seen is None:
        seen = set()
    if local in seen:
        return False
    seen.add(local)
    if local == 0:
        return True
    for bb in range(body.n):
        if body.is_cleanup(bb):
            continue
        for s in body.stmts(bb):
            if "rv" not in s:
                continue
            rv = s["rv"]
            reads = any(op_place(o) is not None and pl_local(op_place(o)) == local for o in rv.get("ops", []))
            if not reads:
                continue
            lhs = s["lhs"]
            if isinstance(lhs, int):
                if lhs == 0 or value_consumed(body, lhs, seen):
                    return True
            else:
                if "*" in pl_projs(lhs):
                    return True          # written through a reference (e.g. `*changed |= ..` in a closure)
                if value_consumed(body, pl_local(lhs), seen):
                    return True
        t = body.term(bb)
        if t["k"] in ("switch", "assert"):
            p = op_place(t["d"])
            if p is not None and pl_local(p) == local:
                return True
        if t["k"] == "call":
            for a in t["a"]:
                p = op_place(a)
                if p is not None and pl_local(p) == local:
                    return True
    return False


def self_write_blocks(body, fa):
    """(definite, may): blocks that assign through *self / blocks that may mutate *self (also via calls taking &mut into self)"""
    definite, may = set(), set()
    for bb in range(body.n):
        if body.is_cleanup(bb):
            continue
        for s in body.stmts(bb):
            if "lhs" in s and not isinstance(s["lhs"], int) and "*" in pl_projs(s["lhs"]):
                if fa.org.ident(s["lhs"]).startswith("self"):
                    definite.add(bb)
                    may.add(bb)
        t = body.term(bb)
        if t["k"] == "call":
            for a in t["a"]:
                p = op_place(a)
                if p is None or not isinstance(p, int):
                    continue
                ty = body.locals[p]
                if (ty.startswith("&mut ") or "Pin<&mut" in ty or ty.startswith("closure#")) and (fa.org.ident(p).startswith("self") or ty.startswith("closure#")):
                    may.add(bb)
        if t["k"] == "drop" and not isinstance(t["p"], int) and "*" in pl_projs(t["p"]) and fa.org.ident(t["p"]).startswith("self"):
            may.add(bb)
    return definite, may


def const_ret_blocks(body, val):
    return [bb for bb, i, lhs, rv in body.assignments() if lhs == 0 and rv["k"] == "use" and rv["ops"][0].get("c") == val and not body.is_cleanup(bb)]


def run(ctx):
    ctx.explanation = ("Flag discipline of every Merge impl of `lattices` on the MIR (all paths): the bool of every nested merge is consumed (reaches the result by data or control "
                       "flow); a constant `false` is never returned on a path on which *self has definitely been assigned; a constant `true` is never returned on a path on which "
                       "nothing could have mutated *self; length-based flags read the old length before and the new length after every mutation.")
    ctx.undecided = "exactness on values (`<` vs `<=`), i.e. that the flag is true exactly when the value strictly grew"
    ctx.assumptions = ["a call that receives no &mut into *self and no closure cannot mutate *self"]
    c = mir.load_crate("lattices")
    R_FLOW = ctx.rule("C02.flagflow", "the changed-flag returned by every nested merge inside a Merge impl is consumed (flows to the result or decides a branch / assert)", floor=8)
    R_WF = ctx.rule("C02.writefalse", "no constant `false` is returned on a path on which *self has definitely been assigned to", floor=14)
    R_WT = ctx.rule("C02.writetrue", "no constant `true` is returned on a path on which nothing can have mutated *self", floor=14)
    R_LEN = ctx.rule("C02.lenpair", "length-derived flags: the old len() is read before every mutation of self and the new len() after every mutation", floor=3)
    R_DIR = ctx.rule("C02.strict", "Max / Min report a change exactly on the strict comparison edge (equal values are no change)", floor=2)
    from lattice_common import ord_direction_rule
    ord_direction_rule(ctx, c, R_DIR)
    merges = lattice_impls(c, {"lattices::Merge"}, include_ght=True)
    for imp in merges:
        b = c.impl_method(imp, "merge")
        if b is None:
            continue
        key = impl_key(c, imp)
        bodies = [b] + c.closures_of(b.def_path)
        # ---- flagflow
        n = 0
        for bd in bodies:
            for bb, dst, what in bool_results(bd):
                n += 1
                if not value_consumed(bd, dst):
                    k = "%s|%s|discarded-flag:%s" % (key, fn_key(c, bd), what)
                    ctx.violation(R_FLOW, k, "the changed-flag returned by a nested %s is never read: a change of that component is not reported" % what, bd.loc(bb))
        if n:
            ctx.inst(R_FLOW, key, sites=n, sample={"impl": key, "nested_merge_results": n})
        # ---- accum: a flag written once per element (captured `&mut changed` in a closure, or a bool local written inside a loop) must accumulate
        for bd in bodies:
            nres = {dst for _bb, dst, _w in bool_results(bd)}
            if not nres:
                continue
            for bb, i, lhs, rv in bd.assignments():
                if bd.is_cleanup(bb):
                    continue
                through_upvar = not isinstance(lhs, int) and "*" in pl_projs(lhs) and bd.kind == "Closure" and (pl_local(lhs) == 1 or _copy_of_upvar(bd, pl_local(lhs)))
                loop_local = isinstance(lhs, int) and lhs != 0 and bd.locals[lhs] == "bool" and bd.in_cycle(bb) and bd.var_names().get(lhs) is not None
                if not (through_upvar or loop_local):
                    continue
                srcs = [op_place(o) for o in rv.get("ops", [])]
                from_merge = any(isinstance(p_, int) and _derives(bd, p_, nres) for p_ in srcs if p_ is not None)
                if not from_merge:
                    continue
                R_ACC = ctx.rule("C02.accum", "a changed-flag that is written once per element (inside an iterator closure or a loop) accumulates (`|=`), it is never overwritten by a later element's result", floor=2)
                k = "%s|%s|flag-write" % (key, fn_key(c, bd))
                ctx.inst(R_ACC, k, sample={"rvalue": rv["k"], "op": rv.get("op")})
                reads_self = any(p_ is not None and (p_ == lhs or (not isinstance(p_, int) and not isinstance(lhs, int) and pl_projs(p_) == pl_projs(lhs)
                                                                   and _upvar_src(bd, pl_local(p_)) is not None and _upvar_src(bd, pl_local(p_)) == _upvar_src(bd, pl_local(lhs)))) for p_ in srcs)
                if not (rv["k"] == "bin" and rv.get("op") in ("BitOr",) and reads_self):
                    ctx.violation(R_ACC, k + "|overwrite", "the changed-flag is overwritten with one element's merge result instead of accumulating (`|=`): a change reported for an earlier "
                                  "element is lost when a later element is already up to date", bd.loc(bb))
        # ---- writefalse / writetrue on the method body itself
        fa = proto.FnAnalysis(c, b, proto.Spec("driver"), None)
        definite, may = self_write_blocks(b, fa)
        falses = const_ret_blocks(b, "false")
        trues = const_ret_blocks(b, "true")
        ctx.inst(R_WF, key, nontrivial=bool(falses), sites=len(falses), sample={"impl": key, "false_blocks": falses, "definite_self_write_blocks": sorted(definite)})
        ctx.inst(R_WT, key, nontrivial=bool(trues), sites=len(trues), sample={"impl": key, "true_blocks": trues, "may_write_blocks": sorted(may)})
        # must-analysis: written on all paths into block
        def transfer(bb, st):
            w = st or (bb in definite)
            return {s: w for s in b.succs(bb)}
        must = forward_dataflow(b, False, transfer, lambda x, y: x and y)
        for fb in falses:
            if must.get(fb, False) or fb in definite and any(True for s in b.stmts(fb)):
                # fb in definite: only counts when the write precedes the `_0 = false` inside the block
                if must.get(fb, False) or write_before_ret_in_block(b, fa, fb):
                    ctx.violation(R_WF, key + "|false-after-write", "`false` (no change) is returned on a path on which *self was assigned to", b.loc(fb))
        for tb in trues:
            path = b.find_path(0, {tb}, avoid=may - {tb})
            if path is not None and not (tb in may and write_before_ret_in_block(b, fa, tb, may_ok=True)):
                ctx.violation(R_WT, key + "|true-without-write", "`true` (changed) is returned on a path on which no assignment to *self and no call that could mutate it "
                              "was executed", b.loc(tb), {"path_blocks": path})
        # ---- lenpair: `_0 = new_len > old_len` style flags
        lens = {}
        for bb, t in b.calls():
            f = t.get("f")
            if f and f["name"] == "len" and t["a"] and isinstance(t.get("dst"), int):
                p = op_place(t["a"][0])
                if p is not None and fa.org.ident(p).startswith("self"):
                    lens[t["dst"]] = (bb, fa.org.ident(p))

        def len_src(local, depth=0):
            if local in lens:
                return local
            if depth > 6:
                return None
            d = fa.org.single_def(local)
            if d and d[0] == "assign" and d[2]["k"] == "use":
                p = op_place(d[2]["ops"][0])
                if isinstance(p, int):
                    return len_src(p, depth + 1)
            return None
        for bb, i, lhs, rv in b.assignments():
            if rv["k"] != "bin" or rv["op"] not in ("Gt", "Lt", "Ne", "Ge", "Le") or b.is_cleanup(bb):
                continue
            if not (lhs == 0 or (isinstance(lhs, int) and b.locals[lhs] == "bool")):
                continue
            ps = [op_place(o) for o in rv["ops"]]
            if not all(isinstance(p, int) for p in ps):
                continue
            srcs = [len_src(p) for p in ps]
            if None in srcs or srcs[0] == srcs[1] or lens[srcs[0]][1] != lens[srcs[1]][1]:
                continue
            (b0, ident), (b1, _) = lens[srcs[0]], lens[srcs[1]]
            old, new = (b0, b1) if b.dominates(b0, b1) else (b1, b0)
            muts = set(x for x in may if x not in (old, new))
            ctx.inst(R_LEN, "%s|%s" % (key, ident), sites=len(muts), sample={"impl": key, "receiver": ident, "old_len_block": old, "new_len_block": new, "mutation_blocks": sorted(muts)})
            if not muts:
                ctx.violation(R_LEN, "%s|%s|no-mutation-between" % (key, ident), "a length-derived flag compares two reads of the same length with no mutation of self in between", b.loc(bb))
            for m in sorted(muts):
                if not b.dominates(old, m):
                    ctx.violation(R_LEN, "%s|%s|mutation-before-old-len" % (key, ident), "self is mutated before the old length is read: growth caused by that mutation is not reported", b.loc(m))
                if m in b.reachable(start=new) and m != new:
                    ctx.violation(R_LEN, "%s|%s|mutation-after-new-len" % (key, ident), "self is mutated after the new length was read: that growth is not reported", b.loc(m))


def _upvar_src(body, local):
    if local == 1:
        return ("self",)
    for bb, idx, rv in body.defs_of(local):
        if idx != "term" and rv["k"] == "use":
            p = op_place(rv["ops"][0])
            if p is not None and not isinstance(p, int) and pl_local(p) == 1:
                return tuple(pl_projs(p))
    return None


def _copy_of_upvar(body, local):
    """local = copy (*_1).k : a reference captured by the closure"""
    for bb, idx, rv in body.defs_of(local):
        if idx != "term" and rv["k"] == "use":
            p = op_place(rv["ops"][0])
            if p is not None and not isinstance(p, int) and pl_local(p) == 1:
                return True
    return False


def _derives(body, local, targets, depth=0):
    if local in targets:
        return True
    if depth > 6:
        return False
    for bb, idx, rv in body.defs_of(local):
        if idx == "term":
            continue
        for o in rv.get("ops", []):
            p = op_place(o)
            if isinstance(p, int) and _derives(body, p, targets, depth + 1):
                return True
    return False


def write_before_ret_in_block(b, fa, bb, may_ok=False):
    seen_write = False
    for s in b.stmts(bb):
        if "lhs" in s and not isinstance(s["lhs"], int) and "*" in pl_projs(s["lhs"]) and fa.org.ident(s["lhs"]).startswith("self"):
            seen_write = True
        if "lhs" in s and s["lhs"] == 0:
            return seen_write
    return seen_write
