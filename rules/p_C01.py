"""C01 — merge is ACI (partial: component completeness of compound merges, capability use, Point)."""
import mir
from framework import fn_key, short_ty
from lattice_common import lattice_impls, impl_key, used_rule, field_calls, struct_fields
from mir import op_place

LEVEL = "other"


def run(ctx):
    ctx.explanation = ("Structural necessary conditions of ACI on the MIR of every Merge/LatticeFrom impl of `lattices`: product lattices (derive(Lattice) output, e.g. Pair) merge "
                       "every field on every path (no short-circuit, no skipped field); every Merge/LatticeFrom/IsBot/PartialOrd capability an impl's where-clause demands is "
                       "actually exercised (a nested merge or conversion silently dropped leaves its bound unused); Point merges only equal values (the unequal edge diverges).")
    ctx.undecided = "ACI on values: comparison direction of Max/Min, VecUnion length handling, UnionFind, the hashing/ordering of the backing collections"
    ctx.assumptions = ["the where-clause of each hand-written impl states the capabilities a correct body needs (the repository's own oracle)"]
    c = mir.load_crate("lattices")
    R_ALL = ctx.rule("C01.allfields", "derive(Lattice)/derive(Merge) output: the merge of every struct field is executed on every path from entry to return", floor=1)
    R_USED = ctx.rule("C01.used", "every Merge/LatticeFrom/IsBot/PartialOrd/PartialEq bound of every Merge and LatticeFrom impl is exercised by its body", floor=28)
    R_POINT = ctx.rule("C01.point", "Point::merge returns only through the values-equal edge; the unequal edge diverges (panics)", floor=1)
    R_PS = ctx.rule("C01.predsib", "a Merge impl that special-cases bottom/top component values is matched by PartialEq/PartialOrd impls consulting the same predicate "
                    "(else merge(a, a) can differ from a as judged by the lattice's own equality: idempotence breaks)", floor=10)
    from lattice_common import predsib_rule
    predsib_rule(ctx, c, R_PS)
    R_DIR = ctx.rule("C01.dir", "Max keeps the greater and Min the smaller value: the replacement happens on the strict comparison edge in the right direction", floor=2)
    from lattice_common import ord_direction_rule
    ord_direction_rule(ctx, c, R_DIR)
    merges = lattice_impls(c, {"lattices::Merge"})
    froms = lattice_impls(c, {"lattices::LatticeFrom"})
    used_rule(ctx, c, R_USED, merges + froms, {"lattices::Merge", "lattices::LatticeFrom", "lattices::IsBot", "lattices::IsTop", "core::cmp::PartialOrd", "core::cmp::PartialEq", "core::cmp::Ord"})
    # ---- allfields
    for imp in merges:
        if "derive(Lattice)" not in (imp.get("mx") or "") and "derive(Merge)" not in (imp.get("mx") or ""):
            continue
        b = c.impl_method(imp, "merge")
        fields = struct_fields(c, imp)
        key = impl_key(c, imp)
        if b is None or fields is None:
            ctx.anchor_missing(R_ALL, "merge body / struct fields of " + key)
            continue
        calls = field_calls(b, "lattices::Merge", "merge")
        ctx.inst(R_ALL, key, sites=len(fields), sample={"impl": key, "fields": fields, "merge_call_blocks": {str(k): v for k, v in calls.items()}})
        rets = set(b.returns())
        for fld in fields:
            blocks = set(calls.get(fld, []))
            if not blocks:
                ctx.violation(R_ALL, "%s|field-not-merged:%s" % (key, fld), "field `%s` is never merged" % fld, b.loc())
                continue
            ok, ex = b.all_paths_pass(blocks, rets)
            if not ok:
                ctx.violation(R_ALL, "%s|field-merge-skippable:%s" % (key, fld), "a path reaches return without merging field `%s` (short-circuit or early return): "
                              "merge would not be commutative/idempotent on that component" % fld, b.loc(min(blocks)), {"path_blocks": b.find_path(0, rets, avoid=blocks)})
    # ---- point
    found = False
    for imp in merges:
        if not imp["self"].startswith("lattices::point::Point<"):
            continue
        found = True
        b = c.impl_method(imp, "merge")
        key = impl_key(c, imp)
        # the comparison call and its switch
        cmp_blocks = [bb for bb, t in b.calls() if t.get("f") and t["f"].get("trait") == "core::cmp::PartialEq" and t["f"]["name"] in ("eq", "ne")]
        ctx.inst(R_POINT, key, sites=len(cmp_blocks), sample={"impl": key, "compare_blocks": cmp_blocks, "return_blocks": b.returns()})
        if not cmp_blocks:
            ctx.violation(R_POINT, key + "|no-compare", "Point::merge does not compare the two values", b.loc())
            continue
        cb = cmp_blocks[0]
        t = b.term(cb)
        nm = t["f"]["name"]
        dst = t["dst"]
        # find switch on dst
        ok = False
        for sb in range(b.n):
            ts = b.term(sb)
            if ts["k"] == "switch" and op_place(ts["d"]) == dst:
                zero = [tgt for v, tgt in ts["ts"] if v == 0]
                unequal_tgt = ts["o"] if nm == "ne" else (zero[0] if zero else None)
                equal_tgt = (zero[0] if zero else None) if nm == "ne" else ts["o"]
                if unequal_tgt is None or equal_tgt is None:
                    continue
                rets = set(b.returns())
                reach_uneq = b.reachable(start=unequal_tgt)
                if rets & reach_uneq:
                    ctx.violation(R_POINT, key + "|unequal-returns", "the values-unequal edge can reach a normal return: Point would merge two different values", b.loc(sb))
                ok = True
        if not ok:
            ctx.violation(R_POINT, key + "|compare-unused", "the comparison result does not decide a branch", b.loc(cb))
        for rb in b.returns():
            if not b.dominates(cb, rb):
                ctx.violation(R_POINT, key + "|return-without-compare", "a return is not dominated by the comparison", b.loc(rb))
    if not found:
        ctx.anchor_missing(R_POINT, "impl Merge for Point")
