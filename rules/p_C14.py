"""C14 — sinktools adaptors honour the futures::Sink protocol (partial: protocol clauses)."""
import mir
import proto
from framework import fn_key
from mir import op_place, pl_local
from p_C12 import run_protocol, report

LEVEL = "other"


def driver_rule(ctx, crate, body, rid):
    """SendIter/SendStream futures: every send readied; completes successfully only after a flush/close succeeded."""
    fa = proto.FnAnalysis(crate, body, proto.Spec("driver"), None)
    key = "%s|%s" % (crate.name, fn_key(crate, body))
    res = proto.ImplResult()
    all_down = {ev["ident"]: ev["dkind"] for ev in fa.events.values()}
    proto.run_typestate(fa, frozenset(), frozenset(), {}, res, "fin:poll_flush", all_down)
    proto.repoll_check(fa, all_down, res)
    ctx.inst(rid, key, nontrivial=res.sends > 0, sites=res.sends + res.fins,
             sample={"function": body.def_path, "downstreams": sorted(all_down), "sends": res.sends, "finalize_calls": res.fins})
    for rule, body2, k, msg, bb in res.violations:
        ctx.violation(rid, "%s|%s:%s" % (key, rule, k), msg.replace("poll_flush can return", "the driver future can complete"),
                      body2.loc(bb) if bb is not None else body2.loc(), {"function": body2.def_path})


def err_rule(ctx, crate, bodies, rid):
    """no Result/Poll<Result> produced by a downstream sink operation is discarded"""
    for body in bodies:
        fa = proto.FnAnalysis(crate, body, proto.Spec("sink"), None)
        key = "%s|%s" % (crate.name, fn_key(crate, body))
        n = 0
        for bb, ev in sorted(fa.events.items()):
            if ev["dkind"] != "sink" or ev.get("forall"):
                continue
            n += 1
            dst = ev["dst"]
            if dst is None:
                continue
            if not result_used(body, bb, dst):
                ctx.violation(rid, "%s|dropped-result:%s:%s" % (key, ev["kind"], ev["ident"]),
                              "the Result of %s on inner sink `%s` is never inspected or returned (an inner error would be swallowed)" % (ev["kind"], ev["ident"]),
                              body.loc(bb), {"function": body.def_path})
        if n:
            ctx.inst(rid, key, sites=n)


def result_used(body, call_bb, dst):
    """is the value written to dst by the call read anywhere (moved/copied/discriminant/passed) before being dropped?"""
    if dst == 0:
        return True
    local = pl_local(dst)
    for bb in range(body.n):
        if body.is_cleanup(bb):
            continue
        for s in body.stmts(bb):
            if "rv" in s and place_reads(s["rv"], local):
                return True
        t = body.term(bb)
        if t["k"] == "call":
            for a in t["a"]:
                p = op_place(a)
                if p is not None and pl_local(p) == local:
                    return True
        if t["k"] == "switch":
            p = op_place(t["d"])
            if p is not None and pl_local(p) == local:
                return True
    return False


def place_reads(rv, local):
    for o in rv.get("ops", []):
        p = op_place(o)
        if p is not None and pl_local(p) == local:
            return True
    if "p" in rv and pl_local(rv["p"]) == local:
        return True
    return False


def run(ctx):
    ctx.explanation = ("Static typestate analysis (rustc MIR, generic bodies, all paths) of the futures::Sink protocol for every sinktools adaptor: "
                       "inner start_send dominated by inner poll_ready -> Ready(Ok) (for collections: a fold over all elements, and lookups only), "
                       "flush/close succeed only after the inner ones, no re-send on re-poll, inner errors not discarded, driver futures flush before completing.")
    ctx.undecided = "routing by key value, item ordering, the enum-state-dependent readiness of LazySink/LazySinkHalf (table exceptions)"
    ctx.assumptions = ["calls into core/alloc/std cannot invoke Sink methods on an inner sink handed to them",
                       "pin-project-lite projections are field projections"]
    c = mir.load_crate("sinktools")
    impls = c.impls_of_trait("futures_sink::Sink") + c.impls_of_trait("demux_var::SinkVariadic")
    res = run_protocol(ctx, c, impls, "sink", "C14")
    for r in ("C14.ready", "C14.finalize", "C14.repoll"):
        ctx.rules[r]["floor"] = 16
    R_DRV = ctx.rule("C14.driver", "send_iter/send_stream futures ready the sink before each send and complete successfully only after the sink flushed", floor=2)
    for imp in c.impls_of_trait("future::Future"):
        body = c.impl_method(imp, "poll")
        if body is None:
            continue
        fa = proto.FnAnalysis(c, body, proto.Spec("driver"), None)
        if any(ev["kind"] == "send" for ev in fa.events.values()):
            driver_rule(ctx, c, body, R_DRV)
    R_LIN = ctx.rule("C14.linear", "the item parameter of start_send and buffered items taken out of the adaptor's state are moved onward on every path", floor=16)
    from p_C11 import linear_rule
    from p_C12 import item_groups
    linear_rule(ctx, c, R_LIN, item_groups(c, impls), "C14")
    R_ERR = ctx.rule("C14.err", "no Result of an inner sink operation is discarded", floor=10)
    bodies = []
    for imp, r in res:
        bodies += [fa.b for fa in r.fas.values()] + [fa.b for fa in r.helper_fas.values()]
    err_rule(ctx, c, bodies, R_ERR)
