"""C14 — sinktools adaptors honour the futures::Sink protocol (partial: protocol clauses)."""
import mir
import proto
from framework import fn_key
from mir import op_place, pl_local
from p_C12 import run_protocol, report

LEVEL = "other"


def driver_rule(ctx, crate, body, rid):
    """SendIter/SendStream futures: every send readied; completes successfully only after a flush/close succeeded."""
    fa = proto.FnAnalysis(crate, body, proto.Spec("driver"), None)
    key = "%s|%s" % (crate.name, fn_key(crate, body))
    res = proto.ImplResult()
    all_down = {ev["ident"]: ev["dkind"] for ev in fa.events.values()}
    proto.run_typestate(fa, frozenset(), frozenset(), {}, res, "fin:poll_flush", all_down)
    proto.repoll_check(fa, all_down, res)
    ctx.inst(rid, key, nontrivial=res.sends > 0, sites=res.sends + res.fins,
             sample={"function": body.def_path, "downstreams": sorted(all_down), "sends": res.sends, "finalize_calls": res.fins})
    for rule, body2, k, msg, bb in res.violations:
        ctx.violation(rid, "%s|%s:%s" % (key, rule, k), msg.replace("poll_flush can return", "the driver future can complete"),
                      body2.loc(bb) if bb is not None else body2.loc(), {"function": body2.def_path})


def err_rule(ctx, crate, bodies, rid):
    """no Result/Poll<Result> produced by a downstream sink operation is discarded"""
    for body in bodies:
        fa = proto.FnAnalysis(crate, body, proto.Spec("sink"), None)
        key = "%s|%s" % (crate.name, fn_key(crate, body))
        n = 0
        for bb, ev in sorted(fa.events.items()):
            if ev["dkind"] != "sink" or ev.get("forall"):
                continue
            n += 1
            dst = ev["dst"]
            if dst is None:
                continue
            if not result_used(body, bb, dst):
                ctx.violation(rid, "%s|dropped-result:%s:%s" % (key, ev["kind"], ev["ident"]),
                              "the Result of %s on inner sink `%s` is never inspected or returned (an inner error would be swallowed)" % (ev["kind"], ev["ident"]),
                              body.loc(bb), {"function": body.def_path})
        if n:
            ctx.inst(rid, key, sites=n)


def result_used(body, call_bb, dst):
    """is the value written to dst by the call read anywhere (moved/copied/discriminant/passed) before being dropped?"""
    if dst == 0:
        return True
    local = pl_local(dst)
    for bb in range(body.n):
        if body.is_cleanup(bb):
            continue
        for s in body.stmts(bb):
            if "rv" in s and place_reads(s["rv"], local):
                return True
        t = body.term(bb)
        if t["k"] == "call":
            for a in t["a"]:
                p = op_place(a)
                if p is not None and pl_local(p) == local:
                    return True
        if t["k"] == "switch":
            p = op_place(t["d"])
            if p is not None and pl_local(p) == local:
                return True
    return False


def place_reads(rv, local):
    for o in rv.get("ops", []):
        p = op_place(o)
        if p is not None and pl_local(p) == local:
            return True
    if "p" in rv and pl_local(rv["p"]) == local:
        return True
    return False


def run(ctx):
    ctx.explanation = ("Static typestate analysis (rustc MIR, generic bodies, all paths) of the futures::Sink protocol for every sinktools adaptor: "
                       "inner start_send dominated by inner poll_ready -> Ready(Ok) (for collections: a fold over all elements, and lookups only), "
                       "flush/close succeed only after the inner ones, no re-send on re-poll, inner errors not discarded, driver futures flush before completing.")
    ctx.undecided = "routing by key value, item ordering, the enum-state-dependent readiness of LazySink/LazySinkHalf (table exceptions)"
    ctx.assumptions = ["calls into core/alloc/std cannot invoke Sink methods on an inner sink handed to them",
                       "pin-project-lite projections are field projections"]
    c = mir.load_crate("sinktools")
    impls = c.impls_of_trait("futures_sink::Sink") + c.impls_of_trait("demux_var::SinkVariadic")
    res = run_protocol(ctx, c, impls, "sink", "C14")
    for r in ("C14.ready", "C14.finalize", "C14.repoll"):
        ctx.rules[r]["floor"] = 16
    R_DRV = ctx.rule("C14.driver", "send_iter/send_stream futures ready the sink before each send and complete successfully only after the sink flushed", floor=2)
    for imp in c.impls_of_trait("future::Future"):
        body = c.impl_method(imp, "poll")
        if body is None:
            continue
        fa = proto.FnAnalysis(c, body, proto.Spec("driver"), None)
        if any(ev["kind"] == "send" for ev in fa.events.values()):
            driver_rule(ctx, c, body, R_DRV)
    R_LIN = ctx.rule("C14.linear", "the item parameter of start_send and buffered items taken out of the adaptor's state are moved onward on every path", floor=16)
    from p_C11 import linear_rule
    from p_C12 import item_groups
    linear_rule(ctx, c, R_LIN, item_groups(c, impls), "C14")
    R_TP = ctx.rule("C14.takepend", "a value taken out of an adaptor's state is never dropped on a path that returns Pending", floor=3)
    from p_C11 import takepend_rule
    sink_adts = set(i.get("self_adt") for i in impls if i.get("self_adt"))
    for i in c.impls_of_trait("futures_core::stream::Stream") + c.impls_of_trait("future::Future"):
        if i.get("self_adt"):
            sink_adts.add(i["self_adt"])
    takepend_rule(ctx, c, R_TP, sink_adts, "sinktools")
    R_RS = ctx.rule("C14.retrysafe", "drain loops: no own-state write between the loop head and the inner sink's readiness check of the same iteration", floor=1)
    from p_C11 import retrysafe_rule
    retrysafe_rule(ctx, c, R_RS, sink_adts)
    R_SI = ctx.rule("C14.stateitem", "a state variant that buffers an item is overwritten only after the item was taken out of it", floor=4)
    stateitem_rule(ctx, c, R_SI)
    R_ERR = ctx.rule("C14.err", "no Result of an inner sink operation is discarded", floor=10)
    bodies = []
    for imp, r in res:
        bodies += [fa.b for fa in r.fas.values()] + [fa.b for fa in r.helper_fas.values()]
    err_rule(ctx, c, bodies, R_ERR)


def stateitem_rule(ctx, c, rid, impls_trait="futures_sink::Sink"):
    """a state-machine variant that buffers an item is overwritten only after the item was taken out of it"""
    import stateitem
    like = stateitem.item_like_generics(c, impls_trait)
    fields = stateitem.item_fields(c, like)
    ctx.extra["item_carrying_state_variants"] = {a.split("::")[-1]: {v: sorted(fs) for v, fs in vs.items()} for a, vs in fields.items()}
    for d, b in sorted(c.bodies.items()):
        if b.kind == "Closure" and False:
            continue
        if c.is_test_path(d):
            continue
        evs = stateitem.overwrite_events(b, c, fields)
        if not evs:
            continue
        takes = stateitem.take_blocks(b)
        key = "%s|%s" % (c.name, fn_key(c, b))
        n = 0
        for bb, adt, how in evs:
            a = c.adts[adt]
            allv = [v["name"] for v in a["variants"]]
            ctxs = [(sb, v, tgt) for sb, v, tgt in stateitem.variant_contexts(b, c, allv) if b.dominates(tgt, bb) and len(b.preds(tgt)) == 1]
            cur = set(v for _sb, v, _t in ctxs)
            # innermost context wins when nested matches on different state values exist: keep variants whose target is dominated by all others
            for v in sorted(cur):
                need = fields[adt].get(v)
                if not need:
                    continue
                n += 1
                for f in sorted(need):
                    ok = any((v, f) in vf and b.dominates(tb, bb) for tb, vf in takes.items())
                    if not ok:
                        ctx.violation(rid, "%s|overwrite-without-take:%s.%s" % (key, v, f),
                                      "the state is overwritten (%s) while it is in variant `%s`, whose field `%s` may hold a buffered item, and no take()/replace() of that field "
                                      "dominates the overwrite: an item sent before or during initialisation is lost" % (how, v, f), b.loc(bb), {"function": b.def_path})
        ctx.inst(rid, key, nontrivial=n > 0, sites=len(evs), sample={"overwrites": [(bb, how) for bb, _a, how in evs]})
