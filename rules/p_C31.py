"""C31 — slices partition streams and take monotone snapshots (partial: all hooks of one slice are taken on the slice's one tick)."""
import mir
from mir import op_place, pl_local

LEVEL = "other"


def derives_only_from(b, p, root, depth=0):
    """is the operand (a reference) derived solely from parameter `root` by copies / reborrows / clones?"""
    if p is None or depth > 12:
        return False
    l = pl_local(p)
    if l == root:
        return True
    defs = b.defs_of(l)
    if not defs:
        return False
    for bb, idx, rv in defs:
        if idx == "term":
            f = rv.get("f") or {}
            if f.get("name") in ("clone", "borrow", "deref", "as_ref") and rv.get("a"):
                if not derives_only_from(b, op_place(rv["a"][0]), root, depth + 1):
                    return False
                continue
            return False
        if rv["k"] in ("ref", "refmut"):
            if not derives_only_from(b, rv["p"], root, depth + 1):
                return False
        elif rv["k"] == "use":
            if not derives_only_from(b, op_place(rv["ops"][0]), root, depth + 1):
                return False
        else:
            return False
    return True


def run(ctx):
    ctx.explanation = ("`sliced!` creates one tick per slice and hands it to `Slicable::slice` of the tuple of `use` bindings; each style wrapper then takes its hook (batch / snapshot / atomic "
                       "variants) on a tick. 'All hooks of one slice are taken at the same point' requires every one of those calls to receive exactly the tick the slice was given: in every "
                       "`Slicable::slice` impl (style wrappers and the tuple impls that fan out), each argument of type `&Tick<_>` passed to any call is derived solely from the `tick` parameter, "
                       "a non-unit impl makes at least one such call, and a tuple impl of arity n makes n of them.")
    ctx.undecided = "that batches partition the input in order and that snapshots are monotone across slices (execution properties of the DFIR runtime / simulator); state carry-over is enforced by the types of CompleteCycles"
    c = mir.load_crate("hydro_lang")
    R = ctx.rule("C31.sametick", "every `Slicable::slice` implementation takes all of its hooks on the tick it was given", floor=28)
    impls = c.impls_of_trait("sliced::Slicable")
    if len(impls) < 28:
        ctx.anchor_missing(R, "Slicable impls (%d)" % len(impls))
        return
    for imp in sorted(impls, key=lambda i: i["def"]):
        b = c.bodies.get(imp["def"] + "::slice")
        sty = imp["self"].replace("hydro_lang::live_collections::", "").replace("hydro_lang::location::", "")
        key = "hydro_lang|Slicable for " + sty[:110]
        if b is None:
            ctx.anchor_missing(R, "slice of " + sty[:60])
            continue
        tick_param = 2
        if "Tick<" not in b.locals[tick_param]:
            ctx.anchor_missing(R, "tick parameter of " + sty[:60])
            continue
        sites = []
        for bb, t in b.calls():
            for i, a in enumerate(t.get("a", [])):
                p = op_place(a)
                if p is None:
                    continue
                ty = b.locals[pl_local(p)] if isinstance(p, int) else None
                if ty and ty.startswith("&") and "location::tick::Tick<" in ty and "Stream<" not in ty and "Singleton<" not in ty and "Optional<" not in ty:
                    sites.append((bb, t, i, p))
        arity = 0 if sty == "()" else (sty.count(",") + 1 if sty.startswith("(") else None)
        ctx.inst(R, key, sites=len(sites), nontrivial=bool(sites), sample={"tick_argument_sites": len(sites), "callees": [(t.get("f") or {}).get("name") for _bb, t, _i, _p in sites][:12]})
        for bb, t, i, p in sites:
            if not derives_only_from(b, p, tick_param):
                ctx.violation(R, key + "|other-tick|" + ((t.get("f") or {}).get("name") or "?"), "a hook of this slice is taken on a tick that is not the slice's own `tick` argument: the hooks of one slice "
                              "are no longer taken at the same point", b.loc(bb))
        if sty != "()" and not sites:
            ctx.violation(R, key + "|no-hook", "`slice` does not take any hook on the given tick", b.loc())
        if arity and len(sites) != arity:
            ctx.violation(R, key + "|arity", "the tuple impl of arity %d slices %d elements" % (arity, len(sites)), b.loc())
