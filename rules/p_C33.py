"""C33 — monotonicity / bounded-value annotations are truthful (partial: the bound-kind tables and the API's bound typing)."""
import hydroapi as A
import hydrotypes as H
import mir
from framework import fn_key

LEVEL = "other"
BOUND_TAGS = {"bound-created", "agg-monotone"}

KS = A.PROMISES["keyed_singleton"]
SG = A.PROMISES["singleton"]


def run(ctx):
    ctx.explanation = ("Monotonicity and bounded-value promises are carried by bound-kind marker types. (1) The associated-type tables of KeyedSingletonBound and SingletonBound are read from the "
                       "impls and checked against the promise sets the kinds document (Unbounded {} < MonotonicKeys {keys only grow} < MonotonicValue {+values monotone} < BoundedValue "
                       "{+value immutable} < Bounded {+finite}): EraseMonotonic never keeps a monotone-value promise the kind does not get from immutability, KeyedStreamToNonMonotone never promises "
                       "monotone values, KeyedStreamToMonotone adds at most keys-grow+values-monotone, WithBoundedValue adds at most value-immutability (and what an add-only keyed stream gives), "
                       "ValueBound/UnderlyingBound agree with the promise sets; ApplyMonotone* impls hand out a monotone result only for a Proved closure. (2) For every HydroNode-constructing API "
                       "function, under every admitted instantiation, the output's promises follow from the input's: element-wise nodes add no promise, Fold/FoldKeyed/Reduce* promise monotone "
                       "values only with a monotonicity proof or a bounded input.")
    ctx.undecided = "that the values emitted at run time obey the annotation (needs execution); that a closure annotated `monotone = manual_proof!` is monotone"
    c = mir.load_crate("hydro_lang")
    S = H.Solver(c)
    name = A.gname
    RT = ctx.rule("C33.table", "bound-kind associated-type tables agree with the documented promise sets", floor=30)
    kinds, _ = S.ground_selfs("KeyedSingletonBound")
    skinds, _ = S.ground_selfs("SingletonBound")
    if len(kinds) < 5 or len(skinds) < 3:
        ctx.anchor_missing(RT, "KeyedSingletonBound / SingletonBound impls")
        return

    def assoc(trait, k, nm):
        return name(S.normalize(("proj", k, ("path", trait, ()), nm, ())))

    def chk(key, ok, msg):
        ctx.inst(RT, key)
        if not ok:
            ctx.violation(RT, key, msg)

    for k in kinds:
        kn = name(k)
        if kn not in KS:
            ctx.notes.append("unjudged keyed-singleton bound kind " + str(kn))
            continue
        pk = KS[kn]
        stream_like = kn in ("Bounded", "Unbounded")
        base = "hydro_lang|KeyedSingletonBound for %s|" % kn
        em = assoc("KeyedSingletonBound", k, "EraseMonotonic")
        chk(base + "EraseMonotonic", em in KS and KS[em] <= pk and ("values_monotone" not in KS[em] or "value_immutable" in pk),
            "EraseMonotonic(%s) = %s keeps or adds a promise it must erase (values-monotone may survive only through immutability)" % (kn, em))
        nm = assoc("KeyedSingletonBound", k, "KeyedStreamToNonMonotone")
        allowed = pk | {"keys_grow"}
        chk(base + "KeyedStreamToNonMonotone", nm in KS and KS[nm] <= allowed and ("values_monotone" not in KS[nm] or "values_monotone" in pk),
            "KeyedStreamToNonMonotone(%s) = %s promises more than 'keys only grow' for an aggregation without a monotonicity proof" % (kn, nm))
        mo = assoc("KeyedSingletonBound", k, "KeyedStreamToMonotone")
        chk(base + "KeyedStreamToMonotone", mo in KS and KS[mo] <= pk | {"keys_grow", "values_monotone"},
            "KeyedStreamToMonotone(%s) = %s promises more than keys-grow + monotone values" % (kn, mo))
        wb = assoc("KeyedSingletonBound", k, "WithBoundedValue")
        allowed = pk | {"value_immutable", "values_monotone"} | ({"keys_grow"} if stream_like or "keys_grow" in pk else set())
        chk(base + "WithBoundedValue", wb in KS and KS[wb] <= allowed and "value_immutable" in KS.get(wb, set()),
            "WithBoundedValue(%s) = %s: must add exactly value-immutability" % (kn, wb))
        vb = assoc("KeyedSingletonBound", k, "ValueBound")
        chk(base + "ValueBound", (vb == "Bounded") == ("value_immutable" in pk), "ValueBound(%s) = %s disagrees with whether the kind promises immutable values" % (kn, vb))
        ub = assoc("KeyedSingletonBound", k, "UnderlyingBound")
        chk(base + "UnderlyingBound", (ub == "Bounded") == ("finite" in pk), "UnderlyingBound(%s) = %s disagrees with whether the kind is finite" % (kn, ub))
        got = S.holds("IsKeyedMonotonic", [k])
        chk(base + "IsKeyedMonotonic", bool(got) == ("values_monotone" in pk), "IsKeyedMonotonic holds=%s for %s but the kind %s monotone values" % (got, kn, "promises" if "values_monotone" in pk else "does not promise"))
    for k in skinds:
        kn = name(k)
        if kn not in SG:
            continue
        base = "hydro_lang|SingletonBound for %s|" % kn
        sm = assoc("SingletonBound", k, "StreamToMonotone")
        chk(base + "StreamToMonotone", sm in SG and SG[sm] <= SG[kn] | {"monotone"}, "StreamToMonotone(%s) = %s promises more than monotonicity" % (kn, sm))
        ub = assoc("SingletonBound", k, "UnderlyingBound")
        chk(base + "UnderlyingBound", (ub == "Bounded") == ("finite" in SG[kn]), "UnderlyingBound(%s) = %s disagrees with finiteness" % (kn, ub))
    # ApplyMonotone*: a monotone result only for a Proved closure
    proofs = [H.parse("hydro_lang::properties::NotProved"), H.parse("hydro_lang::properties::Proved")]
    for tr, outs, inprom, outprom, mono in (("ApplyMonotoneStream", skinds, A.PROMISES["stream"], SG, "monotone"),
                                            ("ApplyMonotoneKeyedStream", kinds, A.PROMISES["keyed_stream"], KS, "values_monotone"),
                                            ("ApplyOrderPreservingSingleton", skinds, SG, SG, "monotone")):
        if tr not in S.by_trait:
            ctx.anchor_missing(RT, tr)
            continue
        ins = [x for x in (skinds if tr == "ApplyOrderPreservingSingleton" else S.ground_selfs("Boundedness")[0])]
        for b in ins:
            for p in proofs:
                for o in outs:
                    if name(o) not in outprom or name(b) not in inprom:
                        continue
                    if S.holds(tr, [b, p, o]):
                        key = "hydro_lang|%s: %s<%s, %s>" % (name(b), tr, name(p), name(o))
                        allowed = set(outprom[name(o)]) if name(b) == "Bounded" else set()
                        if tr == "ApplyMonotoneKeyedStream":
                            allowed |= {"keys_grow"}
                        if tr == "ApplyOrderPreservingSingleton":
                            allowed = set()
                            if name(p) == "Proved":
                                allowed |= inprom[name(b)] & {"monotone"}
                            if name(b) == "Bounded":
                                allowed = set(outprom["Bounded"])
                        elif name(p) == "Proved":
                            allowed.add(mono)
                        chk(key, outprom[name(o)] <= allowed, "%s lets a %s closure on a %s input produce bound %s, which promises %s" % (
                            tr, name(p), name(b), name(o), sorted(outprom[name(o)] - allowed)))
    RN = ctx.rule("C33.node", "under every admitted instantiation the output bound of a HydroNode-constructing API function promises nothing its input and proofs do not justify", floor=120)
    total = 0
    for s in A.sites(c, S):
        n, bad = A.check_site(s)
        total += n
        key = "hydro_lang|%s|%s" % (fn_key(c, c.bodies[s.root]) if s.root in c.bodies else s.root, s.variant)
        ctx.inst(RN, key, nontrivial=n > 0, sites=n)
        seen = set()
        for tag, extra, inst in bad:
            if tag not in BOUND_TAGS or (tag, extra) in seen:
                continue
            seen.add((tag, extra))
            ctx.violation(RN, key + "|" + tag + "|" + extra, "%s [%s] — admitted instantiation: %s" % (A.RULE_TEXT[tag], extra, inst), "%s:%s" % (s.fn["file"], s.fn["line"]))
    ctx.extra["instantiations_checked"] = total

    if ctx.tier == "thorough":
        # independent cross-check of the solver by the real type checker: compile-fail witnesses with compiling twins
        import witness
        witness.check(ctx, "C33")
