"""C23 — blocking inputs see the tick's complete input (partial: subgraphs run to completion, in toposort order; drains are awaited)."""
import re

import mir
import synfacts
from framework import fn_key
from mir import op_place, pl_local

LEVEL = "other"
META = "dfir_lang/src/graph/meta_graph.rs"
ACWO = "dfir_lang::graph::meta_graph::{impl#6}::as_code_with_options"


def callees_feeding(body, var_name):
    """names of the callees on the def chain of the local bound to var_name (through adaptor calls and moves)"""
    names = body.var_names()
    targets = [l for l, n in names.items() if n == var_name]
    out = []
    seen = set()
    work = list(targets)
    while work:
        l = work.pop()
        if l in seen:
            continue
        seen.add(l)
        for bb, idx, rv in body.defs_of(l):
            if idx == "term":
                if rv["k"] == "call":
                    f = rv.get("f")
                    out.append(f["name"] if f else "?")
                    for a in rv["a"][:1]:
                        p = op_place(a)
                        if p is not None:
                            work.append(pl_local(p))
            else:
                for o in rv.get("ops", []):
                    p = op_place(o)
                    if p is not None:
                        work.append(pl_local(p))
                if "p" in rv:
                    work.append(pl_local(rv["p"]))
    return out, bool(targets)


def run(ctx):
    ctx.explanation = ("A blocking input sees the whole tick input only if everything upstream of it has finished before it runs. Decided statically: (1) runtime side (shared with C12.drive): a "
                       "subgraph's pivot future SendPush completes only after its pull side reported Ended and its push side finalised. (2) generator side (syn templates of "
                       "as_code_with_options): each subgraph's future is created and awaited (through InstrumentSubgraph) inside its own block, the pivot `send_push` future is awaited, so "
                       "subgraph k has completed before the code of subgraph k+1 (emitted later) starts; (MIR) the list of subgraphs the generator iterates is `subgraph_toposort()` in "
                       "iteration order — no reversal, sort or hash-ordered collection on the way. (3) every operator template that builds a drain future (Pull::for_each / accumulate helpers over "
                       "an input) awaits it in the same template, so an eager drain cannot be silently skipped.")
    ctx.undecided = "that the precomputed toposort is right for every graph (C18/C19 decide necessary conditions); interleaving inside one subgraph's pull-push pipeline"
    c = mir.load_crate("dfir_lang")
    sf = synfacts.scan([META])[META]
    RB = ctx.rule("C23.block", "subgraph block template: the subgraph future is created and awaited inside its own block; the pivot send_push future is awaited", floor=2)
    tpls = [m for m in sf["macros"] if m["fn"].endswith("as_code_with_options") and m["macro"] in ("quote", "quote_spanned")]
    blk = [m for m in tpls if "InstrumentSubgraph" in m["text"]]
    if len(blk) != 1:
        ctx.anchor_missing(RB, "the subgraph block template (InstrumentSubgraph) in as_code_with_options: found %d" % len(blk))
    for m in blk:
        t = m["text"].replace(" ", "")
        k = "dfir_lang|as_code_with_options|subgraph-block-template"
        ctx.inst(RB, k, sample={"line": m["line"]})
        i = t.find("let#sg_fut_ident=async{")
        j = t.find("InstrumentSubgraph::new(#sg_fut_ident,sg_metrics).await;")
        if i < 0 or j < 0 or j < i:
            ctx.violation(RB, k + "|not-awaited", "the subgraph future is not `let #sg_fut_ident = async {..}` followed by `InstrumentSubgraph::new(#sg_fut_ident, sg_metrics).await;` "
                          "in the same block: the next subgraph could start before this one has finished", "%s:%s" % (META, m["line"]))
        if t.count(".await") < 1:
            ctx.violation(RB, k + "|no-await", "no await in the subgraph block template", "%s:%s" % (META, m["line"]))
    piv = [m for m in tpls if "send_push" in m["text"]]
    if len(piv) != 1:
        ctx.anchor_missing(RB, "the pivot template (send_push) in as_code_with_options: found %d" % len(piv))
    for m in piv:
        t = m["text"].replace(" ", "")
        k = "dfir_lang|as_code_with_options|pivot-template"
        ctx.inst(RB, k, sample={"line": m["line"]})
        if not re.search(r"pull::Pull::send_push\(pull,push\)", t) or not re.search(r"\(#pivot_fn_ident\)\(#pull_ident,#push_ident\)\.await;", t):
            ctx.violation(RB, k + "|pivot-not-awaited", "the pivot future (Pull::send_push of the subgraph's pull and push halves) is not awaited", "%s:%s" % (META, m["line"]))
    # order
    RO = ctx.rule("C23.order", "the generator iterates the subgraphs in subgraph_toposort() order (no reversal / sort / hash-ordered collection on the way)", floor=1)
    ab = c.bodies.get(ACWO)
    if ab is None:
        ctx.anchor_missing(RO, "DfirGraph::as_code_with_options")
    else:
        callees, found = callees_feeding(ab, "all_subgraphs")
        k = "dfir_lang|as_code_with_options|all_subgraphs"
        ctx.inst(RO, k, sites=len(callees), sample={"def_chain_callees": callees})
        if not found or "subgraph_toposort" not in callees:
            ctx.violation(RO, k + "|not-from-toposort", "the subgraph list iterated by the generator is not derived from subgraph_toposort() (callees on its definition chain: %s)" % callees, ab.loc())
        bad = [x for x in callees if x in ("rev", "sort", "sort_by", "sort_by_key", "sort_unstable", "sort_unstable_by", "sort_unstable_by_key", "reverse", "into_values", "values", "keys", "drain", "shuffle", "dedup", "skip", "take", "filter", "step_by")]
        if bad:
            ctx.violation(RO, k + "|reordered", "the toposort order is altered before code generation by %s" % bad, ab.loc())
        # the loop over all_subgraphs appends each block: `extend` calls inside a cycle fed by iterating all_subgraphs
    # drains awaited
    RE = ctx.rule("C23.eager", "every operator template that builds a drain future over an input (Pull::for_each / accumulate helpers) awaits it in the same template", floor=15)
    d = synfacts.scan_dir("dfir_lang/src/graph/ops")
    for f, v in sorted(d.items()):
        idx = 0
        for m in v["macros"]:
            if m["macro"] not in ("quote", "quote_spanned"):
                continue
            t = m["text"].replace(" ", "")
            pos = [x.start() for x in re.finditer(r"pull::Pull::for_each\(|pull::accumulate\w*\(|push::accumulate\w*\(|Pull::for_each\(", t)]
            if not pos:
                continue
            idx += 1
            k = "dfir_lang|%s|drain-template#%d" % (f.split("/")[-1], idx)
            ctx.inst(RE, k, sites=len(pos), sample={"conds": m["conds"][-1:], "line": m["line"]})
            for p0 in pos:
                if ".await" not in t[p0:]:
                    ctx.violation(RE, k + "|not-awaited", "a drain future over an operator input is built but never awaited in its template: the operator would emit before (or without) consuming "
                                  "its blocking input", "%s:%s" % (f, m["line"]))

    if ctx.tier == "thorough":
        # translation validation on a corpus of dfir_syntax! programs compiled with this tree's dfir_lang (never run)
        import corpus
        corpus.rules_c23(ctx)
