"""Term reconstruction for the base law checkers of lattices::algebra: the two sides of every equality test are rebuilt from the MIR
(def-use only) as terms over the operation parameters and the loop variables, and compared with the textbook equation."""
from mir import op_place, op_const, pl_local, pl_projs


class Terms:
    def __init__(self, body):
        self.b = body
        self.loopvars = {}     # (local of next() result, index or None) -> name
        self.names = body.var_names()

    def param_name(self, local):
        return "p%d" % local

    def term(self, local, depth=0):
        b = self.b
        if depth > 30:
            return "?"
        if 1 <= local <= b.argc:
            return self.param_name(local)
        defs = b.defs_of(local)
        if len(defs) != 1:
            # loop variable assigned from the iterator payload in one place is single-def; anything else is opaque
            return "?multi"
        bb, idx, rv = defs[0]
        if idx == "term":
            t = rv
            f = t.get("f") if t["k"] == "call" else None
            if not f:
                return "?call"
            if f["name"] in ("call", "call_mut", "call_once") and len(t["a"]) == 2:
                fn = self.place_term(op_place(t["a"][0]), depth + 1)
                tup = op_place(t["a"][1])
                args = self.tuple_args(tup, depth + 1)
                return "%s(%s)" % (fn, ",".join(args))
            if f["name"] in ("clone", "borrow", "deref", "as_ref", "to_owned") and t["a"]:
                return self.place_term(op_place(t["a"][0]), depth + 1)
            if f["name"] == "next":
                return "?next"
            return "?%s" % f["name"]
        if rv["k"] in ("use", "cast"):
            o = rv["ops"][0]
            c = op_const(o)
            if c is not None:
                return "const:%s" % c
            return self.place_term(op_place(o), depth + 1)
        if rv["k"] in ("ref", "refmut"):
            return self.place_term(rv["p"], depth + 1)
        return "?" + rv["k"]

    def place_term(self, p, depth):
        if p is None:
            return "?"
        if isinstance(p, int):
            return self.term(p, depth)
        projs = pl_projs(p)
        base = pl_local(p)
        # payload of an iterator's next(): `_11@Some.0[k]` or `_11@Some.0`
        if any(pr.startswith("@Some") for pr in projs):
            idx = None
            for pr in projs:
                if pr.startswith("[") and pr[1:-1].lstrip("-").isdigit():
                    idx = int(pr[1:-1])
            key = (base, idx)
            if key not in self.loopvars:
                self.loopvars[key] = "v%d" % len(self.loopvars)
            return self.loopvars[key]
        if projs == ["*"]:
            return self.term(base, depth)
        if all(pr == "*" for pr in projs):
            return self.term(base, depth)
        return "?place"

    def tuple_args(self, p, depth):
        if not isinstance(p, int):
            return ["?"]
        defs = self.b.defs_of(p)
        if len(defs) != 1 or defs[0][1] == "term":
            return ["?"]
        rv = defs[0][2]
        if rv["k"] == "agg" and rv["agg"] == "tuple":
            out = []
            for o in rv["ops"]:
                c = op_const(o)
                out.append("const:%s" % c if c is not None else self.place_term(op_place(o), depth))
            return out
        return ["?"]


def equations(body):
    """[(relation, lhs, rhs, block)] for every PartialEq test whose outcome decides an Err return.
    relation 'must_eq': Err is returned when the sides differ; 'must_ne': Err is returned when they are equal."""
    T = Terms(body)
    err_blocks = [bb for bb, i, lhs, rv in body.assignments() if lhs == 0 and rv["k"] == "agg" and (rv.get("adt") or {}).get("variant") == "Err" and not body.is_cleanup(bb)]
    out = []
    cmp_blocks = set(bb for bb, t in body.calls() if t.get("f") and t["f"]["name"] in ("ne", "eq") and t["f"].get("trait") == "core::cmp::PartialEq")

    def reaches_err(start, own):
        """an Err return is reached from `start` before any other comparison is evaluated"""
        seen = set()
        work = [start]
        while work:
            x = work.pop()
            if x in seen or x in cmp_blocks:
                continue
            seen.add(x)
            if x in err_blocks:
                return True
            work.extend(body.succs(x))
        return False
    for bb, t in body.calls():
        f = t.get("f")
        if not f or f["name"] not in ("ne", "eq") or f.get("trait") != "core::cmp::PartialEq" or len(t["a"]) != 2 or not isinstance(t.get("dst"), int):
            continue
        l = T.place_term(op_place(t["a"][0]), 0)
        r = T.place_term(op_place(t["a"][1]), 0)
        # which edge of the switch on the result leads to Err?
        rel = None
        for sb in range(body.n):
            ts = body.term(sb)
            if ts["k"] == "switch" and op_place(ts["d"]) == t["dst"]:
                zero = [tgt for v, tgt in ts["ts"] if v == 0]
                true_t, false_t = ts["o"], (zero[0] if zero else None)
                err_on_true = reaches_err(true_t, bb)
                err_on_false = false_t is not None and reaches_err(false_t, bb)
                if err_on_true and not err_on_false:
                    rel = "must_eq" if f["name"] == "ne" else "must_ne"
                elif err_on_false and not err_on_true:
                    rel = "must_ne" if f["name"] == "ne" else "must_eq"
                elif not err_on_true and not err_on_false:
                    rel = "guard"
                else:
                    rel = "?"
        out.append((rel, l, r, bb))
    return out, T
