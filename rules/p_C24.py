"""C24 — ticks advance one at a time; deferred data lands in the next tick (partial: tick-closure skeleton, counter, laziness decisions)."""
import re

import enumeval
import mir
import synfacts
from framework import fn_key
from mir import op_place, op_const, pl_local, pl_fields, pl_projs

LEVEL = "other"
META = "dfir_lang/src/graph/meta_graph.rs"
ACWO = "dfir_lang::graph::meta_graph::{impl#6}::as_code_with_options"
LAZY = {"TickLazy", "LoopLazy"}


def closures_feeding(c, body, var_name):
    """closure def-paths that (transitively through iterator adaptor calls) feed the local bound to `var_name`"""
    names = body.var_names()
    targets = [l for l, n in names.items() if n == var_name]
    out = []
    seen = set()
    work = list(targets)
    while work:
        l = work.pop()
        if l in seen:
            continue
        seen.add(l)
        ty = body.locals[l]
        if ty.startswith("closure#"):
            out.append(ty[8:])
            continue
        for bb, idx, rv in body.defs_of(l):
            if idx == "term":
                if rv["k"] == "call":
                    for a in rv["a"]:
                        p = op_place(a)
                        if p is not None:
                            work.append(pl_local(p))
            else:
                for o in rv.get("ops", []):
                    p = op_place(o)
                    if p is not None:
                        work.append(pl_local(p))
                if "p" in rv:
                    work.append(pl_local(rv["p"]))
    return out


def eval_delay(c, cdef, variant):
    """run a closure body for DelayType = variant (taking the Some / Continue edge of Option / ControlFlow tests).
    returns (result kind, trace, final const values)"""
    b = c.bodies[cdef]

    def oracle(place, variants):
        names = set(variants.values())
        inv = {n: v for v, n in variants.items()}
        if "Tick" in names and "TickLazy" in names:
            return inv[variant]
        if names == {"Continue", "Break"}:
            return inv["Continue"]
        if names == {"None", "Some"}:
            return inv["Some"]
        return None
    return b, enumeval.run(b, oracle)


def last_ret_assign(b, trace):
    """the last assignment to _0 (or to the local later moved into _0) on the executed trace: ('variant', name) | ('const', text) | None"""
    res = None
    for bb in trace:
        for s in b.stmts(bb):
            if s.get("lhs") == 0:
                rv = s["rv"]
                if rv["k"] == "agg" and rv.get("adt"):
                    res = ("variant", rv["adt"].get("variant"))
                elif rv["k"] == "use":
                    cst = op_const(rv["ops"][0])
                    res = ("const", str(cst)) if cst is not None else ("move", op_place(rv["ops"][0]))
        t = b.term(bb)
        if t["k"] == "call" and t.get("dst") == 0:
            res = ("call", t["f"]["name"] if t.get("f") else "?")
    return res


def nested_delay_closures(c, cdef):
    """closures (DelayType) -> bool nested in (or equal to) cdef"""
    out = []
    for d, b in c.bodies.items():
        if (d == cdef or d.startswith(cdef + "::")) and b.kind == "Closure" and b.locals[0] == "bool" and any("DelayType" in b.locals[l] for l in range(1, b.argc + 1)):
            out.append(d)
    return sorted(out)


def run(ctx):
    ctx.explanation = ("(1) Counter (dfir_rs MIR): Context.current_tick is written only by __end_tick (and constructors); __end_tick performs exactly one add_assign of the constant "
                       "TickDuration::SINGLE_TICK on every path, outside any loop; schedule_subgraph(true) reaches WakeState::wake_by_ref on the true edge of its flag. (2) Tick-closure skeleton "
                       "(syn, the one template of as_code_with_options that defines the `async move |df|` closure): the subgraph code, the schedule_subgraph(true) test over the non-lazy deferred "
                       "buffers, the tick-level buffer swaps, the operators' tick-end code and the single `__end_tick()` call appear in exactly this order, `__end_tick()` exactly once and not "
                       "inside a nested block. (3) Laziness decisions (MIR of the generator's closures, evaluated for all four DelayType variants): the filter feeding `non_lazy_schedule_idents` "
                       "yields None for TickLazy/LoopLazy and may yield Some for Tick/Loop; the tick-level swap filter accepts exactly Tick and TickLazy; the laziness flag of back buffers is true "
                       "exactly for the *Lazy delays. (4) Runner (coroutine MIR): run_available{,_sync} re-enter run_tick exactly when the swapped flag was true (shared with C27).")
    ctx.undecided = "that deferred items arrive exactly one tick later (data flow through the buffers at run time); that 'tick state is cleared (C21)"
    d = mir.load_crate("dfir_rs")
    c = mir.load_crate("dfir_lang")
    # ---------------- counter
    RC = ctx.rule("C24.counter", "current_tick is advanced by exactly one SINGLE_TICK per __end_tick and written nowhere else", floor=2)
    writers = []
    for dp, b in sorted(d.bodies.items()):
        if d.is_test_path(dp):
            continue
        for bb, i, lhs, rv in b.assignments():
            if not isinstance(lhs, int) and "current_tick" in pl_fields(lhs) and "Context" in b.locals[pl_local(lhs)]:
                writers.append((dp, "assign", bb))
        for bb, t in b.calls():
            for a in t["a"][:1]:
                p = op_place(a)
                if isinstance(p, int):
                    for db, idx, rv in b.defs_of(p):
                        if idx != "term" and rv["k"] == "refmut" and "current_tick" in pl_fields(rv["p"]) and "Context" in b.locals[pl_local(rv["p"])]:
                            writers.append((dp, "call:" + (t["f"]["name"] if t.get("f") else "?"), bb))
        for bb in range(b.n):
            for st in b.stmts(bb):
                rv = st.get("rv")
                if rv and rv["k"] == "agg" and rv.get("adt") and rv["adt"]["def"].endswith("context::Context"):
                    writers.append((dp, "construct", bb))
    ctx.inst(RC, "dfir_rs|Context.current_tick|writers", sites=len(writers), sample={"writers": sorted(set((w[0], w[1]) for w in writers))})
    et = [b for dp, b in d.bodies.items() if dp.endswith("::__end_tick") and "context" in dp]
    if not et:
        ctx.anchor_missing(RC, "Context::__end_tick")
    for dp, how, bb in writers:
        if how == "construct":
            continue
        if not dp.endswith("::__end_tick"):
            ctx.violation(RC, "dfir_rs|%s|foreign-write" % fn_key(d, d.bodies[dp]), "the tick counter is written outside __end_tick (%s)" % how, d.bodies[dp].loc(bb))
    for b in et:
        k = "dfir_rs|" + fn_key(d, b)
        adds = [(bb, t) for bb, t in b.calls() if t.get("f") and t["f"]["name"] == "add_assign"]
        others = [t["f"]["name"] for bb, t in b.calls() if t.get("f") and t["f"]["name"] != "add_assign"]
        ctx.inst(RC, k, sites=len(adds), sample={"add_assign_calls": len(adds), "other_calls": others})
        ok = len(adds) == 1 and not others
        if ok:
            bb, t = adds[0]
            cst = op_const(t["a"][1]) if len(t["a"]) > 1 else None
            ok = cst is not None and str(cst).endswith("TickDuration::SINGLE_TICK") and not b.in_cycle(bb) and b.all_paths_pass({bb}, set(b.returns()))[0]
        if not ok:
            ctx.violation(RC, k + "|not-single-step", "__end_tick does not advance the counter by exactly one SINGLE_TICK on every path (add_assign calls: %d, other calls: %s)" % (len(adds), others), b.loc())
    # SINGLE_TICK itself (evaluated constant from the impl facts)
    vals = [it.get("const") for i in d.impls.values() for it in i["items"] if it["name"] == "SINGLE_TICK" and i["self"].endswith("ticks::TickDuration")]
    if not vals:
        ctx.anchor_missing(RC, "TickDuration::SINGLE_TICK")
    for v in vals:
        ctx.inst(RC, "dfir_rs|TickDuration::SINGLE_TICK", sample={"value": v})
        if v is None or int(v, 16) != 1:
            ctx.violation(RC, "dfir_rs|TickDuration::SINGLE_TICK|not-one", "TickDuration::SINGLE_TICK evaluates to %s, not one tick" % v)
    # TickInstant += TickDuration adds the duration's ticks (one checked_add_signed of rhs.ticks, stored back)
    for dp, b in sorted(d.bodies.items()):
        if dp.endswith("::add_assign") and "ticks" in dp and "TickInstant" in b.locals[1]:
            k = "dfir_rs|" + fn_key(d, b)
            adds = [t for bb, t in b.calls() if t.get("f") and t["f"]["name"] in ("checked_add_signed", "checked_add", "wrapping_add", "add")]
            ctx.inst(RC, k, sites=len(adds))
            ok = len(adds) == 1 and adds[0]["f"]["name"].startswith("checked_add")
            if ok:
                a1 = op_place(adds[0]["a"][1]) if len(adds[0]["a"]) > 1 else None
                ok = a1 is not None and _from_param_field(b, a1, 2, "ticks")
            if not ok:
                ctx.violation(RC, k + "|not-plain-add", "TickInstant += TickDuration is not a single checked addition of the duration's `ticks`", b.loc())
    # schedule_subgraph(true) -> wake_by_ref
    RW = ctx.rule("C24.schedule", "Context::schedule_subgraph(true) reaches WakeState::wake_by_ref (which sets can_start_tick, see C27)", floor=1)
    ss = [b for dp, b in d.bodies.items() if dp.endswith("::schedule_subgraph") and "context" in dp]
    if not ss:
        ctx.anchor_missing(RW, "Context::schedule_subgraph")
    for b in ss:
        k = "dfir_rs|" + fn_key(d, b)
        wakes = [bb for bb, t in b.calls() if t.get("f") and t["f"]["name"] in ("wake_by_ref", "wake")]
        ctx.inst(RW, k, sites=len(wakes))
        ok = False
        for sb in range(b.n):
            t = b.term(sb)
            if t["k"] == "switch" and isinstance(op_place(t["d"]), int) and _is_param_copy(b, op_place(t["d"]), 2):
                for w in wakes:
                    if b.dominates(t["o"], w):
                        ok = True
        if wakes and not any(t_["k"] == "switch" for t_ in (b.term(x) for x in range(b.n))):
            ok = b.all_paths_pass(set(wakes), set(b.returns()))[0]
        if not ok:
            ctx.violation(RW, k + "|no-wake", "schedule_subgraph(true) does not reach wake_by_ref on the flag's true edge: non-lazy deferred data would not start another tick", b.loc())
    # ---------------- skeleton (syn)
    RS = ctx.rule("C24.skeleton", "tick-closure template: subgraphs < schedule test over non-lazy buffers < tick-level swaps < tick-end code < exactly one __end_tick(), at the closure's top level", floor=1)
    sf = synfacts.scan([META])[META]
    tpls = [m for m in sf["macros"] if m["fn"].endswith("as_code_with_options") and m["macro"] in ("quote", "quote_spanned") and "__end_tick" in m["text"]]
    if len(tpls) != 1:
        ctx.anchor_missing(RS, "the tick-closure template (quote! containing __end_tick) in as_code_with_options: found %d" % len(tpls))
    for m in tpls:
        txt = m["text"].replace(" ", "")     # token text, whitespace-insensitive
        k = "dfir_lang|as_code_with_options|tick-closure-template"
        ctx.inst(RS, k, sample={"line": m["line"], "chars": len(txt)})
        loc = "%s:%s" % (META, m["line"])
        pos = {}
        # slot names are read from the template itself (a renamed generator variable must not raise an alarm)
        pos = {}
        slots = {}
        m_cl = re.search(r"asyncmove\|#(\w+):&mut#root::scheduled::context::Context\|", txt)
        m_sched = re.search(r"iffalse#\(\|\|!#(\w+)\.is_empty\(\)\)\*\{#(\w+)\.schedule_subgraph\(true\);\}", txt)
        m_end = re.findall(r"#(\w+)\.__end_tick\(\);", txt)
        if not m_cl:
            ctx.violation(RS, k + "|closure", "the template has no `async move |<ctx>: &mut Context|` tick closure", loc)
        else:
            pos["closure"] = m_cl.start()
            slots["df"] = m_cl.group(1)
        if not m_sched or len(re.findall(r"schedule_subgraph\(", txt)) != 1:
            ctx.violation(RS, k + "|schedule", "the template does not contain exactly one `if false #(|| !#<bufs>.is_empty())* { <ctx>.schedule_subgraph(true); }` test", loc)
        else:
            pos["schedule"] = m_sched.start()
            slots["sched"] = m_sched.group(1)
        if len(m_end) != 1:
            ctx.violation(RS, k + "|endtick", "the tick-closure template contains %d `__end_tick()` calls (expected exactly one)" % len(m_end), loc)
        else:
            pos["endtick"] = txt.index("#%s.__end_tick();" % m_end[0])
        if "closure" in pos and "schedule" in pos and "endtick" in pos:
            before = txt[pos["closure"]:pos["schedule"]]
            between = txt[m_sched.end():pos["endtick"]]
            sg = re.findall(r"(?<![(#\w])#(\w+)(?=#\[allow|#\[|iffalse|$)", before)
            m_sub = re.search(r"#(\w+)(?:#\[allow\([^\]]*\)\])?$", before)
            m_swaps = re.match(r"#\(#(\w+)\)\*\}", between)
            m_te = re.search(r"\}#\(#(\w+)\)\*$", between)
            if m_sub:
                pos["subgraphs"] = pos["closure"] + m_sub.start()
                slots["subgraphs"] = m_sub.group(1)
            else:
                ctx.violation(RS, k + "|subgraphs", "no subgraph-code slot directly before the schedule test", loc)
            if m_swaps:
                pos["swaps"] = m_sched.end()
                slots["swaps"] = m_swaps.group(1)
            else:
                ctx.violation(RS, k + "|swaps", "the schedule test is not directly followed by the repeated tick-level swap slot closing the block", loc)
            if m_te:
                pos["tickend"] = m_sched.end() + m_te.start() + 1
                slots["tickend"] = m_te.group(1)
            else:
                ctx.violation(RS, k + "|tickend", "the repeated tick-end slot is not directly before __end_tick()", loc)
        ctx.extra["template_slots"] = slots
        order = ["closure", "subgraphs", "schedule", "swaps", "tickend", "endtick"]
        if all(n in pos for n in order):
            if [pos[n] for n in order] != sorted(pos[n] for n in order):
                ctx.violation(RS, k + "|order", "tick-closure elements are out of order: %s" % sorted(pos, key=pos.get), loc)
            # nesting depth of __end_tick relative to the closure body
            body_start = txt.index("{", pos["closure"])
            depth = 0
            for ch in txt[body_start:pos["endtick"]]:
                if ch == "{":
                    depth += 1
                elif ch == "}":
                    depth -= 1
            if depth != 1:
                ctx.violation(RS, k + "|nested-end-tick", "__end_tick() sits at brace depth %d inside the tick closure (expected the closure's top level): it would run conditionally or repeatedly" % depth, loc)
            sdepth = 0
            for ch in txt[body_start:pos["schedule"]]:
                if ch == "{":
                    sdepth += 1
                elif ch == "}":
                    sdepth -= 1
            if not (txt[body_start:pos["schedule"]].count("while") == 0 and txt[body_start:pos["schedule"]].count("loop{") == 0):
                ctx.violation(RS, k + "|schedule-in-loop", "the schedule_subgraph test is inside a loop of the template", loc)
    # ---------------- laziness decisions (MIR)
    RL = ctx.rule("C24.lazy", "generator decisions over DelayType: schedule list skips *Lazy; tick-level swap takes exactly Tick|TickLazy; laziness flag true exactly for *Lazy", floor=3)
    ab = c.bodies.get(ACWO)
    if ab is None:
        ctx.anchor_missing(RL, "DfirGraph::as_code_with_options")
        return
    # (a) non_lazy_schedule_idents
    cls = closures_feeding(c, ab, ctx.extra.get("template_slots", {}).get("sched", "non_lazy_schedule_idents"))
    cls = [x for x in cls if any("DelayType" in rvs for rvs in _discr_types(c.bodies[x]))]
    if len(cls) != 1:
        ctx.anchor_missing(RL, "the filter closure feeding `non_lazy_schedule_idents` (found %d)" % len(cls))
    for cd in cls:
        k = "dfir_lang|as_code_with_options|non_lazy_schedule_idents"
        table = {}
        for v in ("Tick", "TickLazy", "Loop", "LoopLazy"):
            b, (res, trace) = eval_delay(c, cd, v)
            la = last_ret_assign(b, trace)
            table[v] = (res[0], la)
        ctx.inst(RL, k, sites=4, sample={"closure": cd, "table": {v: str(t) for v, t in table.items()}})
        for v in LAZY:
            res0, la = table[v]
            if not (res0 == "ret" and la == ("variant", "None")):
                ctx.violation(RL, k + "|lazy-not-skipped:" + v, "a %s handoff is not filtered out of the buffers whose non-emptiness schedules another tick (evaluation: %s, %s): "
                              "lazily deferred data alone would keep the dataflow ticking" % (v, res0, la), c.bodies[cd].loc())
        for v in ("Tick", "Loop"):
            res0, la = table[v]
            if res0 == "ret" and la == ("variant", "None") :
                ctx.violation(RL, k + "|nonlazy-skipped:" + v, "a %s (non-lazy) handoff is filtered out of the schedule test: data deferred to the next tick would not start that tick" % v, c.bodies[cd].loc())
    # (a') sibling agreement: the tick-level swap list treats consumers inside a root-level loop specially (their swap happens inside the loop gate);
    # the schedule test must make the same distinction, otherwise it looks at the wrong one of the two buffers for those handoffs
    RSIB = ctx.rule("C24.rootloop", "the schedule test distinguishes root-level-loop consumers whenever the tick-level swap code does (both consult loop_parent)", floor=1)

    def callee_names(cdefs):
        out = set()
        for cd in cdefs:
            for d, bd in c.bodies.items():
                if d == cd or d.startswith(cd + "::"):
                    for bb, t in bd.calls():
                        if t.get("f"):
                            out.add(t["f"]["name"])
        return out
    slots_ = ctx.extra.get("template_slots", {})
    swap_cls = closures_feeding(c, ab, slots_.get("swaps", "back_edge_swap_code"))
    sched_cls = closures_feeding(c, ab, slots_.get("sched", "non_lazy_schedule_idents"))
    sw_names, sc_names = callee_names(swap_cls), callee_names(sched_cls)
    ctx.inst(RSIB, "dfir_lang|as_code_with_options|root-loop-agreement", sample={"swap_code_consults_loop_parent": "loop_parent" in sw_names, "schedule_test_consults_loop_parent": "loop_parent" in sc_names})
    if "loop_parent" in sw_names and "loop_parent" not in sc_names:
        ctx.violation(RSIB, "dfir_lang|as_code_with_options|root-loop-agreement|schedule-ignores-root-loop", "the tick-level swap code excludes handoffs consumed in a root-level loop (they are swapped "
                      "inside the loop gate) but the schedule test does not consult loop_parent: for those handoffs it reads the buffer that was already swapped away, so data deferred to the next "
                      "tick does not start that tick", ab.loc())
    # (b) tick-level swap filter
    cls = closures_feeding(c, ab, ctx.extra.get("template_slots", {}).get("swaps", "back_edge_swap_code"))
    dcs = sorted(set(x for cd in cls for x in nested_delay_closures(c, cd)))
    if len(dcs) != 1:
        ctx.anchor_missing(RL, "the DelayType predicate of the tick-level swap filter (found %d)" % len(dcs))
    for cd in dcs:
        k = "dfir_lang|as_code_with_options|back_edge_swap_code"
        table = {}
        for v in ("Tick", "TickLazy", "Loop", "LoopLazy"):
            b, (res, trace) = eval_delay(c, cd, v)
            table[v] = _bool_result(b, res, trace)
        ctx.inst(RL, k, sites=4, sample={"closure": cd, "table": table})
        want = {"Tick": True, "TickLazy": True, "Loop": False, "LoopLazy": False}
        if table != want:
            ctx.violation(RL, k + "|swap-set", "the tick-level double-buffer swap is applied for %s (expected exactly Tick and TickLazy): a tick-deferred buffer that is not swapped is "
                          "never delivered, a loop-deferred one swapped at tick level is delivered in the wrong iteration" % sorted(v for v, x in table.items() if x), c.bodies[cd].loc())
    # (c) laziness flag of back buffers
    cls = closures_feeding(c, ab, "back_edge_hoffs_and_lazyness")
    cls = [x for x in cls if any("DelayType" in rvs for rvs in _discr_types(c.bodies[x]))]
    if len(cls) != 1:
        ctx.anchor_missing(RL, "the closure computing the laziness flag of back-edge handoffs (found %d)" % len(cls))
    for cd in cls:
        k = "dfir_lang|as_code_with_options|back_edge_hoffs_and_lazyness"
        table = {}
        for v in ("Tick", "TickLazy", "Loop", "LoopLazy"):
            b, (res, trace) = eval_delay(c, cd, v)
            table[v] = _flag_on_trace(b, trace)
        ctx.inst(RL, k, sites=4, sample={"closure": cd, "table": table})
        want = {"Tick": False, "TickLazy": True, "Loop": False, "LoopLazy": True}
        if table != want:
            ctx.violation(RL, k + "|lazy-flag", "the laziness flag of back buffers is %s (expected true exactly for TickLazy and LoopLazy)" % table, c.bodies[cd].loc())

    if ctx.tier == "thorough":
        # translation validation on a corpus of dfir_syntax! programs compiled with this tree's dfir_lang (never run)
        import corpus
        corpus.rules_c24(ctx)


def _from_param_field(b, place, param, field, depth=0):
    if not isinstance(place, int):
        return pl_local(place) == param and field in pl_fields(place)
    if depth > 5:
        return False
    for bb, idx, rv in b.defs_of(place):
        if idx != "term" and rv["k"] == "use":
            p = op_place(rv["ops"][0])
            if p is not None and _from_param_field(b, p, param, field, depth + 1):
                return True
    return False


def _is_param_copy(b, local, param):
    if local == param:
        return True
    for bb, idx, rv in b.defs_of(local):
        if idx != "term" and rv["k"] == "use":
            p = op_place(rv["ops"][0])
            if isinstance(p, int) and _is_param_copy(b, p, param):
                return True
    return False


def _discr_types(b):
    out = []
    for bb in range(b.n):
        for st in b.stmts(bb):
            rv = st.get("rv")
            if rv and rv["k"] == "discr":
                out.append(b.locals[pl_local(rv["p"])])
    return out


def _bool_result(b, res, trace):
    if res[0] != "ret":
        return None
    v = None
    for bb in trace:
        for s in b.stmts(bb):
            if s.get("lhs") == 0 and s["rv"]["k"] == "use":
                cst = op_const(s["rv"]["ops"][0])
                if cst is not None:
                    v = str(cst) == "true"
    return v


def _flag_on_trace(b, trace):
    """value of the last bool constant assigned on the trace to a local that ends up in a tuple aggregate"""
    v = None
    for bb in trace:
        for s in b.stmts(bb):
            if "lhs" in s and isinstance(s["lhs"], int) and b.locals[s["lhs"]] == "bool" and s["rv"]["k"] == "use":
                cst = op_const(s["rv"]["ops"][0])
                if cst is not None and str(cst) in ("true", "false"):
                    v = str(cst) == "true"
    return v
