"""State machines that buffer an item: a state variant holding a buffered item must not be overwritten unless the item was taken out first.

ADT-level facts (which enum variants carry an item) are derived from the crate's own types: the item parameter of `impl Sink<Item> for S<..>`
is propagated through S's field types into the state enums it stores."""
import hydrotypes as H
from mir import op_place, pl_local, pl_projs


def _walk(n, f):
    f(n)
    k = n[0]
    if k == "path":
        for x in n[2]:
            if x is not None:
                _walk(x, f)
    elif k == "proj":
        _walk(n[1], f)
        for x in n[4]:
            _walk(x, f)
    elif k in ("tuple", "impl", "dyn"):
        for x in n[1]:
            _walk(x, f)
    elif k == "ref":
        _walk(n[2], f)
    elif k in ("ptr", "slice"):
        _walk(n[1], f)


def item_like_generics(crate, sink_trait_suffix="futures_sink::Sink"):
    """adt def -> set of its generic parameter names that are instantiated with a Sink impl's item type"""
    like = {}
    for i in crate.impls_of_trait(sink_trait_suffix):
        adt = i.get("self_adt")
        ta = i.get("trait_args", [])
        if not adt or adt not in crate.adts or len(ta) < 2:
            continue
        item = H.parse(ta[1])
        names = set()
        _walk(item, lambda n: names.add(n[1]) if n[0] == "path" and not n[2] and n[1] in i["generics"] else None)
        selfn = H.parse(i["self"])
        if selfn[0] != "path":
            continue
        gens = crate.adts[adt].get("generics", [])
        targs = [a for a in selfn[2] if a is not None and a[0] != "lt"]
        tgens = [g for g in gens if not g.startswith("'")]
        for g, a in zip(tgens, targs):
            if a[0] == "path" and not a[2] and a[1] in names:
                like.setdefault(adt, set()).add(g)
    changed = True
    while changed:
        changed = False
        for adt, gs in list(like.items()):
            a = crate.adts[adt]
            for v in a["variants"]:
                for f in v["fields"]:
                    def visit(n):
                        nonlocal changed
                        if n[0] != "path" or not n[2]:
                            return
                        tgt = None
                        for d in crate.adts:
                            if d == n[1] or d.endswith("::" + n[1].split("::")[-1]) and d.split("::")[0] == adt.split("::")[0] and n[1].split("::")[-1] == d.split("::")[-1]:
                                tgt = d
                                break
                        if tgt is None:
                            return
                        tg = [g for g in crate.adts[tgt].get("generics", []) if not g.startswith("'")]
                        ta = [x for x in n[2] if x is not None and x[0] != "lt"]
                        for g2, x in zip(tg, ta):
                            if x[0] == "path" and not x[2] and x[1] in gs and g2 not in like.get(tgt, set()):
                                like.setdefault(tgt, set()).add(g2)
                                changed = True
                    _walk(H.parse(f["ty"]), visit)
    return like


def item_fields(crate, like):
    """adt def -> {variant name: set(field names holding an item by value)} for enums"""
    out = {}
    for adt, gs in like.items():
        a = crate.adts[adt]
        if a["kind"] != "Enum":
            continue
        for v in a["variants"]:
            for f in v["fields"]:
                n = H.parse(f["ty"])
                if n[0] == "path" and H.last(n[1]) == "PhantomData":
                    continue
                hit = []
                _walk(n, lambda x: hit.append(1) if x[0] == "path" and not x[2] and x[1] in gs else None)
                if hit:
                    out.setdefault(adt, {}).setdefault(v["name"], set()).add(f["name"])
    return out


def _adt_of_type(crate, ty):
    """def path of the ADT a reference/pin type string points to"""
    n = H.parse(ty)
    for _ in range(4):
        if n[0] == "ref":
            n = n[2]
        elif n[0] == "path" and H.last(n[1]) in ("Pin", "RefMut", "Ref", "Box") and n[2]:
            n = [x for x in n[2] if x is not None and x[0] != "lt"][0]
        else:
            break
    if n[0] == "path":
        for d in crate.adts:
            if d == n[1]:
                return d
    return None


def trace_variant_field(body, local, depth=0):
    """follow reborrows / moves of a reference back to a place `..@Variant.idx:field`; returns (variant, field) or None"""
    if depth > 10:
        return None
    for bb, idx, rv in body.defs_of(local):
        if idx == "term":
            t = rv
            if t["k"] == "call" and t.get("f") and t["f"]["name"] in ("as_mut", "deref_mut", "as_deref_mut", "get_mut", "as_pin_mut") and t["a"]:
                p = op_place(t["a"][0])
                if p is not None:
                    r = _vf_of_place(body, p, depth)
                    if r:
                        return r
            continue
        p = None
        if rv["k"] in ("ref", "refmut", "rawptr"):
            p = rv["p"]
        elif rv["k"] == "use":
            p = op_place(rv["ops"][0])
        if p is None:
            continue
        r = _vf_of_place(body, p, depth)
        if r:
            return r
    return None


def _vf_of_place(body, p, depth):
    projs = pl_projs(p)
    var = None
    for pr in projs:
        if pr.startswith("@"):
            var = pr[1:]
        elif pr.startswith(".") and var is not None and ":" in pr:
            return (var, pr.split(":", 1)[1])
    return trace_variant_field(body, pl_local(p), depth + 1)


def variant_contexts(body, crate, want_variants):
    """(switch bb, variant name, target bb) for discriminant switches over an enum whose variant names include all of want_variants"""
    out = []
    for sb in range(body.n):
        ts = body.term(sb)
        if ts["k"] != "switch" or body.is_cleanup(sb):
            continue
        dp = op_place(ts["d"])
        if not isinstance(dp, int):
            continue
        for db, idx, rv in body.defs_of(dp):
            if idx == "term" or rv["k"] != "discr":
                continue
            variants = {v: n for v, n in (rv.get("variants") or [])}
            if not set(want_variants) <= set(variants.values()):
                continue
            taken = set()
            for val, tgt in ts["ts"]:
                if val in variants:
                    out.append((sb, variants[val], tgt))
                    taken.add(val)
            rest = [n for v, n in variants.items() if v not in taken]
            if len(rest) == 1:
                out.append((sb, rest[0], ts["o"]))
    return out


def overwrite_events(body, crate, fields_by_adt):
    """(bb, adt, how) where a whole state value of an item-carrying enum is dropped/overwritten in place"""
    out = []
    for bb in range(body.n):
        if body.is_cleanup(bb):
            continue
        t = body.term(bb)
        if t["k"] == "drop":
            p = t["p"]
            projs = pl_projs(p)
            if projs == ["*"]:
                adt = _adt_of_type(crate, body.locals[pl_local(p)])
                if adt in fields_by_adt:
                    out.append((bb, adt, "assignment through a reference"))
        elif t["k"] == "call" and t.get("f") and t["f"]["def"].endswith("pin::{impl#10}::set") or (t["k"] == "call" and t.get("f") and t["f"]["name"] == "set" and "core::pin" in t["f"]["def"]):
            if t["a"]:
                p = op_place(t["a"][0])
                if isinstance(p, int):
                    adt = _adt_of_type(crate, body.locals[p])
                    if adt in fields_by_adt:
                        out.append((bb, adt, "Pin::set"))
    return out


def take_blocks(body):
    """block -> (variant, field) for take/replace calls whose receiver points at a variant field"""
    out = {}
    for bb, t in body.calls():
        f = t.get("f")
        if not f or f["name"] not in ("take", "replace") or not t["a"]:
            continue
        p = op_place(t["a"][0])
        if p is None:
            continue
        r = _vf_of_place(body, p, 0)
        if r:
            out.setdefault(bb, set()).add(r)
    return out
