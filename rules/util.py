"""helpers shared by rule modules"""
import mir
from mir import op_place, pl_local, pl_projs, pl_fields


def place_has_field(p, names):
    return p is not None and any(f in names for f in pl_fields(p))


def derives_field(body, local, names, depth=0, seen=None):
    """does local (a reference) point into a place that has one of the named fields? follows refs/moves/deref calls"""
    if seen is None:
        seen = set()
    if local in seen or depth > 12:
        return False
    seen.add(local)
    for bb, idx, rv in body.defs_of(local):
        if idx == "term":
            t = rv
            if t["k"] == "call" and t.get("f") and t["f"]["name"] in ("deref", "deref_mut", "as_mut", "borrow_mut", "as_ref", "borrow", "get_mut", "as_deref_mut", "as_deref") and t["a"]:
                p = op_place(t["a"][0])
                if p is not None and (place_has_field(p, names) or derives_field(body, pl_local(p), names, depth + 1, seen)):
                    return True
            continue
        if rv["k"] in ("ref", "refmut", "rawptr"):
            if place_has_field(rv["p"], names) or derives_field(body, pl_local(rv["p"]), names, depth + 1, seen):
                return True
        elif rv["k"] == "use":
            p = op_place(rv["ops"][0])
            if p is not None and (place_has_field(p, names) or derives_field(body, pl_local(p), names, depth + 1, seen)):
                return True
    return False


def calls_on_field(body, method_names, field_names):
    """blocks with a call <method>(recv, ..) whose receiver points into one of the named fields"""
    out = []
    for bb, t in body.calls():
        f = t.get("f")
        if not f or f["name"] not in method_names or not t["a"]:
            continue
        p = op_place(t["a"][0])
        if p is None:
            continue
        if place_has_field(p, field_names) or derives_field(body, pl_local(p), field_names):
            out.append(bb)
    return out


