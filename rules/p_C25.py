"""C25 — references read settled state and run in declaration order (partial: the ordering constraints a reference creates reach the scheduler)."""
import mir
from framework import fn_key
import p_C18
import p_C19
import p_C23

LEVEL = "other"
MOD = "dfir_lang::graph::flat_to_partitioned::"


def run(ctx):
    ctx.explanation = ("A reference (`#name`) reads settled state only if the partitioner is told about the ordering the reference creates. Decided on the MIR of flat_to_partitioned.rs (all paths): "
                       "(1) for every handoff reference the producer is inserted as a same-tick predecessor of the borrower and the borrower as a predecessor of the handoff's pipe consumers — "
                       "unconditionally, never filtered by tick_edges (a delayed pipe edge does not delay a reference); (2) the access groups of one reference target are chained pairwise with "
                       "overlapping windows and every member pair is emitted unconditionally, so `earlier group before later group` is transitive; (3) those pairs and the reference "
                       "(producer, borrower) pairs are also handed to the merger as no-merge pairs, so the two closures end up in different subgraphs; (4) subgraphs run to completion one after "
                       "the other (C23.block: each subgraph future is awaited inside its own block). Together: every closure of an earlier reference group runs for all its items before any "
                       "closure of a later group, and a reference is read after its same-tick producers.")
    ctx.undecided = "that the topological order computed from these constraints is right for every graph (C17/C19 decide necessary conditions); singleton references resolved by process_singletons (value-level)"
    c = mir.load_crate("dfir_lang")
    fsu = c.bodies.get(MOD + "find_subgraph_unionfind")
    if fsu is None:
        ctx.anchor_missing(ctx.rule("C25.refdeps", "reference dependencies", floor=1), "find_subgraph_unionfind")
        return
    p_C19.refdeps_rule(ctx, c, fsu, rid="C25.refdeps")
    p_C19.accessgroups_rule(ctx, c, rid="C25.accessgroups")
    # on the Hydro side the access groups come from AccessCounter::next_group: a `&mut` access must be alone in its group
    import p_C41
    p_C41.access_isolation_rule(ctx, rid="C25.accessiso")
    mainbuf_rule(ctx, c)
    R_E = ctx.rule("C25.enemies", "access-group pairs and reference (producer, borrower) pairs are handed to the merger as no-merge pairs", floor=1)
    p_C18.enemies_rule(ctx, c, fsu, R_E)
    # the access-group pairs computed by find_access_group_ordering reach find_subgraph_unionfind (caller wiring)
    R_W = ctx.rule("C25.wiring", "partition_graph passes the result of find_access_group_ordering to find_subgraph_unionfind", floor=1)
    pg = c.bodies.get(MOD + "partition_graph")
    if pg is None:
        ctx.anchor_missing(R_W, "partition_graph")
        return
    ago = [(bb, t) for bb, t in pg.calls() if t.get("f") and t["f"]["name"] == "find_access_group_ordering"]
    ctx.inst(R_W, "dfir_lang|partition_graph", sites=len(ago))
    # follow the value through at most two call hops: partition_graph -> (make_subgraphs ->) find_subgraph_unionfind's `access_group_pairs` parameter
    want_param = [l for l, n in fsu.var_names().items() if n == "access_group_pairs" and 1 <= l <= fsu.argc]
    ok = False

    def flows(body, src_local, depth):
        """does the value reach find_subgraph_unionfind's access_group_pairs parameter?"""
        for bb, t in body.calls():
            f = t.get("f")
            if not f:
                continue
            for k, a in enumerate(t["a"]):
                p = mir.op_place(a)
                if p is None or not _derives(body, mir.pl_local(p), src_local):
                    continue
                if f["name"] == "find_subgraph_unionfind":
                    return bool(want_param) and k + 1 == want_param[0]
                callee = c.bodies.get(f["def"])
                if callee is not None and depth > 0 and callee is not body and flows(callee, k + 1, depth - 1):
                    return True
        return False
    for _ab, at in ago:
        if isinstance(at.get("dst"), int) and flows(pg, at["dst"], 2):
            ok = True
    if not ago or not ok:
        ctx.violation(R_W, "dfir_lang|partition_graph|access-groups-not-passed", "the access-group ordering pairs do not reach find_subgraph_unionfind's access_group_pairs parameter: reference groups "
                      "would not be ordered", pg.loc())


def _derives(b, local, target, depth=0):
    if local == target:
        return True
    if depth > 8 or not isinstance(local, int) or not isinstance(target, int):
        return False
    for bb, idx, rv in b.defs_of(local):
        if idx == "term":
            if rv["k"] == "call":
                for a in rv["a"]:
                    p = mir.op_place(a)
                    if p is not None and _derives(b, mir.pl_local(p), target, depth + 1):
                        return True
            continue
        for o in rv.get("ops", []):
            p = mir.op_place(o)
            if p is not None and _derives(b, mir.pl_local(p), target, depth + 1):
                return True
        if "p" in rv and _derives(b, mir.pl_local(rv["p"]), target, depth + 1):
            return True
    return False


def mainbuf_rule(ctx, c):
    """A `#name` reference must read the buffer the same-tick producers write (the handoff's main buffer). Tick-boundary handoffs are double-buffered: the back buffer holds the
    *previous* tick's items and is only for the pipe consumer's drain. The function that resolves references into tokens (`helper_resolve_singletons`) must therefore never
    reach `hoff_back_ident`, directly or through helpers of DfirGraph."""
    R = ctx.rule("C25.mainbuf", "reference resolution (helper_resolve_singletons) names only the handoff's main buffer: no call path from it reaches hoff_back_ident", floor=1)
    roots = [b for n, b in c.bodies.items() if n.endswith("::helper_resolve_singletons")]
    if not roots:
        ctx.anchor_missing(R, "DfirGraph::helper_resolve_singletons")
        return
    back = [n for n in c.bodies if n.endswith("::hoff_back_ident")]
    if not back:
        ctx.anchor_missing(R, "DfirGraph::hoff_back_ident")
        return
    for b in roots:
        key = "dfir_lang|" + fn_key(c, b)
        seen = set()
        frontier = [(b.def_path, [b.def_path])]
        hit = None
        ncalls = 0
        while frontier and hit is None:
            d, path = frontier.pop()
            if d in seen or len(path) > 5:
                continue
            seen.add(d)
            bodies = [c.bodies[d]] + [cb for n, cb in c.bodies.items() if n.startswith(d + "::{closure")]
            for body in bodies:
                for bb, t in body.calls():
                    f = t.get("f") or {}
                    callee = f.get("res") or f.get("def")
                    if not callee:
                        continue
                    ncalls += 1
                    if callee.endswith("::hoff_back_ident"):
                        hit = (path + [callee], body.loc(bb))
                        break
                    if callee in c.bodies and "meta_graph" in callee and callee not in seen:
                        frontier.append((callee, path + [callee]))
                if hit:
                    break
        ctx.inst(R, key, sites=ncalls, sample={"functions_followed": len(seen), "uses_main_buffer": any((t.get("f") or {}).get("name") == "hoff_buf_ident" for _bb, t in b.calls())})
        if hit:
            ctx.violation(R, key + "|reads-back-buffer", "a `#name` reference can be resolved to the handoff's *back* buffer (path: %s): for a tick-boundary handoff that is the previous tick's "
                          "content, not what the same-tick producers wrote" % " -> ".join(x.split("::")[-1] for x in hit[0]), hit[1])
