"""NOSRC: sources of nondeterminism (hash-order iteration over RandomState collections, pointer->int casts, clocks, OS randomness, env, threads)."""
import re

from mir import op_place, pl_local

RAND = "std::hash::random::RandomState"
HASH_COLL = re.compile(r"std::collections::hash::(map::HashMap|set::HashSet)<")
HASH_ITER_TY = re.compile(r"std::collections::hash::(map|set)::(Iter|IterMut|IntoIter|Keys|Values|ValuesMut|IntoKeys|IntoValues|Drain|ExtractIf|Difference|Intersection|SymmetricDifference|Union)<")
SLOT_SPARSE = re.compile(r"slotmap::sparse_secondary::(SparseSecondaryMap|Iter|IterMut|IntoIter|Keys|Values|ValuesMut|Drain)<")
ITER_METHODS = {"iter", "iter_mut", "keys", "values", "values_mut", "into_keys", "into_values", "drain", "retain", "extract_if", "into_iter",
                "difference", "intersection", "symmetric_difference", "union"}


def split_args(s):
    """split top-level generic args of `Path<...>` string -> list"""
    i = s.find("<")
    if i < 0 or not s.endswith(">"):
        return []
    inner = s[i + 1:-1]
    out, depth, cur = [], 0, ""
    for ch in inner:
        if ch in "<([":
            depth += 1
        elif ch in ">)]":
            depth -= 1
        if ch == "," and depth == 0:
            out.append(cur.strip())
            cur = ""
        else:
            cur += ch
    if cur.strip():
        out.append(cur.strip())
    return out


def find_types(s, regex):
    """all maximal type substrings starting at a regex match, with balanced <>"""
    out = []
    for m in regex.finditer(s):
        start = m.start()
        i = m.end() - 1
        depth = 0
        j = i
        while j < len(s):
            if s[j] == "<":
                depth += 1
            elif s[j] == ">":
                depth -= 1
                if depth == 0:
                    break
            j += 1
        out.append(s[start:j + 1])
    return out


def random_hash_collections(ty):
    """std HashMap/HashSet types with the default RandomState hasher mentioned in a type string"""
    out = []
    for t in find_types(ty, HASH_COLL):
        args = split_args(t)
        if RAND in args:
            out.append(t)
    return out


def strip_refs(t):
    while t.startswith("&"):
        t = t[1:]
        if t.startswith("mut "):
            t = t[4:]
    return t


def hash_order_sites(body):
    """(bb, callee name, receiver type, kind) for calls that start or drive an iteration in hash order"""
    out = []
    for bb, t in body.calls():
        f = t.get("f")
        if not f:
            continue
        name = f["name"]
        recv_ty = None
        if t["a"]:
            p = op_place(t["a"][0])
            if p is not None and isinstance(p, int):
                recv_ty = body.locals[p]
        self_ty = f.get("self") or recv_ty or f.get("impl_self") or ""
        if not f.get("self") and f.get("impl_self") and recv_ty is None and f.get("args"):
            # inherent method called on a temporary: rebuild the receiver type from the call's generic args
            head = f["impl_self"].split("<")[0]
            self_ty = "%s<%s>" % (head, ", ".join(f["args"]))
        base = strip_refs(self_ty)
        # 1. iteration-starting method directly on the collection
        if name in ITER_METHODS:
            if HASH_COLL.match(base) and random_hash_collections(base) and base == random_hash_collections(base)[0]:
                out.append((bb, name, base, "std-hash-collection"))
                continue
            if base.startswith("slotmap::sparse_secondary::SparseSecondaryMap<") and RAND in split_args(base):
                out.append((bb, name, base, "sparse-secondary-map"))
                continue
        # 2. IntoIterator::into_iter on a wrapper whose items are such collections (Option<HashSet>, flatten)
        if f.get("trait") == "core::iter::traits::collect::IntoIterator" and name == "into_iter":
            pass
        # 3. an iterator adaptor whose Self flattens a RandomState collection
        if f.get("trait") == "core::iter::traits::iterator::Iterator" and ("Flatten<" in self_ty or "FlatMap<" in self_ty):
            inner = random_hash_collections(self_ty)
            if inner and not HASH_ITER_TY.search(self_ty) and name in ("next", "for_each", "fold", "collect", "map", "filter", "try_fold", "all", "any", "count", "find", "extend", "chain", "cloned", "copied", "filter_map", "flat_map", "flatten"):
                out.append((bb, name + "@flatten", inner[0], "flattened-hash-collection"))
    return out


PTR_INT = ("ptr_expose",)
CLOCK = re.compile(r"^(std::time::(Instant|SystemTime)|std::time::.*::now|tokio::time::(instant::)?Instant|web_time::|chrono::)")


def other_sources(body):
    """(bb, what) for pointer->int casts, clocks, OS randomness, env, thread spawns"""
    out = []
    for bb, i, lhs, rv in body.assignments():
        if body.is_cleanup(bb):
            continue
        if rv["k"] == "cast" and rv.get("cast") in PTR_INT:
            out.append((bb, "pointer-to-integer cast (address-dependent value)"))
    for bb, t in body.calls():
        f = t.get("f")
        if not f:
            continue
        d = f.get("res") or f["def"]
        n = f["name"]
        if n == "now" and ("time" in d):
            out.append((bb, "clock read (%s)" % d))
        elif d.startswith("rand::") or d.startswith("getrandom::") or d.startswith("fastrand::") or "RandomState" in d and n == "new":
            out.append((bb, "OS/thread randomness (%s)" % d))
        elif d.startswith("std::env::") and n in ("var", "vars", "var_os", "args"):
            out.append((bb, "environment read (%s)" % d))
        elif d.startswith("std::thread::") and n in ("spawn", "scope"):
            out.append((bb, "thread spawn (%s)" % d))
        elif n in ("as_ptr", "addr", "expose_provenance") and d.startswith(("alloc::rc::", "alloc::sync::", "core::ptr::")) and n != "as_ptr":
            out.append((bb, "pointer address (%s)" % d))
    return out
