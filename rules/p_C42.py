"""C42 — code generation is deterministic (claimed: absence of nondeterminism sources in the generators)."""
import mir
import nosrc
from framework import fn_key
from mir import op_place, pl_local
from p_C05 import flows_to

LEVEL = "other"

# reviewed hash-order iteration sites that are neither sorted-after-collect nor feeding an order-insensitive consumer
# key: crate|function|callee|kind  -> reason (confirmed by reading the code)
SITE_TABLE = {
    "dfir_lang|SubgraphMerge<K>::try_merge|next@flatten|flattened-hash-collection":
        "enemy remap: each element w is inserted into / removed from hash *sets* (enemies[u].insert(w), enemies[w].remove(v)/insert(u)); per-element set updates commute, nothing order-dependent is emitted",
    "hydro_lang|DeployFlow<D>::deploy|into_iter|sparse-secondary-map":
        "deployment step after code generation: every location's DFIR (`compiled`, from compile_internal) and extra statements (cluster_id_stmts, sorted) are fixed before this loop; the "
        "loop only hands each location its own already-generated code (instantiate) and re-collects into a SparseSecondaryMap; the iteration order affects only the order in which the deploy "
        "environment registers nodes, not any generated graph or code",
    "hydro_lang|hydro_lang::deploy::deploy_graph::create_trybuild_service|into_iter|std-hash-collection":
        "sets environment variables of the build command from a map (key -> value); setting distinct keys commutes; no generated code depends on it",
    "hydro_lang|SimFlow::compiled|keys|sparse-secondary-map":
        "assert-only loop (checks every cluster has a max size); no output",
    "hydro_lang|SimFlow::cluster_sizing|keys|sparse-secondary-map":
        "two loops that insert per-key entries into BTreeMaps / a SparseSecondaryMap keyed by the (unique) cluster key; per-key inserts commute (the code's own #[expect] reason)",
}
EXCLUDED_PREFIXES = ("hydro_lang::viz::", "hydro_lang::sim::runtime", "hydro_lang::sim::compiled", "hydro_lang::telemetry", "hydro_lang::sim::tests")
ORDER_INSENSITIVE_TERMINALS = {"all", "any", "count", "sum", "product", "is_empty", "len"}


def in_scope(c, d):
    if c.is_test_path(d):
        return False
    if c.name == "hydro_lang":
        return not d.startswith(EXCLUDED_PREFIXES)
    return True


def classify(body, bb, t):
    """automatic classification of an iteration site by what consumes the iterator"""
    dst = t.get("dst")
    if not isinstance(dst, int):
        return None
    seen, calls = flows_to(body, dst, max_steps=40)
    names = [tt["f"]["name"] for _, tt, _ in calls if tt.get("f")]
    # an adaptor closure with mutable captures can have order-dependent side effects: no automatic classification
    for cbb, ct, l in calls:
        for a in ct["a"]:
            p = op_place(a)
            if isinstance(p, int) and body.locals[p].startswith("closure#") and closure_has_mut_capture(body, p):
                return None
    # collect into Vec then sort
    for cbb, ct, l in calls:
        f = ct.get("f")
        if f and f["name"] == "collect" and isinstance(ct.get("dst"), int):
            v = ct["dst"]
            ty = body.locals[v]
            if ty.startswith("alloc::vec::Vec<"):
                if sorted_after(body, v):
                    return "collected into a Vec that is sorted before use"
            if ty.startswith(("alloc::collections::btree::", "std::collections::hash::", "slotmap::")):
                return "collected into an ordered/hash collection (order-insensitive)"
    for n in names:
        if n in ORDER_INSENSITIVE_TERMINALS:
            return "consumed by order-insensitive `%s`" % n
    return None


def closure_has_mut_capture(body, local):
    for bb, idx, rv in body.defs_of(local):
        if idx != "term" and rv["k"] == "agg" and rv["agg"] == "closure":
            for o in rv["ops"]:
                p = op_place(o)
                if isinstance(p, int) and body.locals[p].startswith("&mut "):
                    return True
    return False


def sorted_after(body, vec_local):
    """is there a sort* call on (a reference derived from) vec_local?"""
    refs = {vec_local}
    changed = True
    while changed:
        changed = False
        for bb, i, lhs, rv in body.assignments():
            if isinstance(lhs, int) and lhs not in refs:
                if rv["k"] in ("ref", "refmut") and pl_local(rv["p"]) in refs:
                    refs.add(lhs); changed = True
                elif rv["k"] == "use" and op_place(rv["ops"][0]) is not None and pl_local(op_place(rv["ops"][0])) in refs:
                    refs.add(lhs); changed = True
        for bb, t in body.calls():
            f = t.get("f")
            if f and f["name"] in ("deref_mut", "as_mut_slice", "deref") and t["a"] and isinstance(t.get("dst"), int) and t["dst"] not in refs:
                p = op_place(t["a"][0])
                if p is not None and pl_local(p) in refs:
                    refs.add(t["dst"]); changed = True
    for bb, t in body.calls():
        f = t.get("f")
        if f and f["name"].startswith("sort") and t["a"]:
            p = op_place(t["a"][0])
            if p is not None and pl_local(p) in refs:
                return True
    return False


def scan(ctx, crates, scope_fn, R_HASH, R_OTHER, site_table, prop):
    used_entries = set()
    nbodies = 0
    for c in crates:
        for d, b in sorted(c.bodies.items()):
            if not scope_fn(c, d):
                continue
            nbodies += 1
            sites = nosrc.hash_order_sites(b)
            per_key = {}
            for bb, name, ty, kind in sites:
                auto = classify(b, bb, b.term(bb))
                key = "%s|%s|%s|%s" % (c.name, fn_key(c, b), name, kind)
                per_key.setdefault(key, []).append((bb, auto, ty))
            for key, lst in sorted(per_key.items()):
                autos = [a for _, a, _ in lst]
                ctx.inst(R_HASH, key, sites=len(lst), sample={"site": key, "at": [b.loc(bb) for bb, _, _ in lst], "collection": lst[0][2][:160],
                                                            "classification": autos[0] if all(autos) else site_table.get(key, "UNCLASSIFIED")})
                if all(autos):
                    continue
                if key in site_table:
                    used_entries.add(key)
                    continue
                ctx.violation(R_HASH, key, "iteration in hash order over a RandomState collection (%s) whose consumer is not recognised as order-insensitive and which is not a "
                              "reviewed table entry: the result may differ between runs/processes" % lst[0][2][:120], b.loc(lst[0][0]))
            for bb, what in nosrc.other_sources(b):
                if what.startswith("environment read"):
                    continue
                if "q!" in (b.term(bb).get("mx") or ""):
                    continue   # staged user code quoted by stageleft's q!: compiled into the *generated* program, never run by the generator
                key = "%s|%s|%s" % (c.name, fn_key(c, b), what.split(" (")[0])
                ctx.inst(R_OTHER, key, sample={"site": key, "at": b.loc(bb), "what": what})
                ctx.violation(R_OTHER, key, "%s inside a code generator / deterministic-replay module" % what, b.loc(bb))
    for k in site_table:
        if k not in used_entries:
            ctx.violation(R_HASH, "stale-table-entry|" + k, "reviewed-site table entry no longer matches any site: re-review", "")
    return nbodies


def run(ctx):
    ctx.explanation = ("Absence proof by exhaustive scan of the type-checked generators (all non-test bodies of dfir_lang; hydro_lang except viz / sim runtime / telemetry): no iteration in hash "
                       "order over a std HashMap/HashSet or slotmap SparseSecondaryMap with the default RandomState hasher - detected by receiver *type*, incl. IntoIterator::into_iter, "
                       "retain/drain and Flatten over such collections, which the repo's clippy configuration cannot express - unless the consumer is recognised order-insensitive "
                       "(sorted after collect, collected into a map/set, all/any/count/sum) or the site is a reviewed table entry; no pointer-to-integer cast, clock, randomness or thread spawn.")
    ctx.undecided = "determinism of proc_macro2/prettyplease/syn/serde_json themselves (trusted); environment variables are treated as inputs"
    ctx.assumptions = ["slotmap serialises SparseSecondaryMap in key order (confirmed by reading slotmap 1.1.1)", "FxHashMap/BTreeMap/IndexMap/SecondaryMap iteration is deterministic"]
    dl = mir.load_crate("dfir_lang")
    hl = mir.load_crate("hydro_lang")
    R_HASH = ctx.rule("C42.hashorder", "no hash-order iteration over RandomState collections reaches generated output (type-based detection; consumers classified)", floor=7)
    R_OTHER = ctx.rule("C42.othersrc", "no pointer->integer cast, clock read, randomness or thread spawn in the generators, except reviewed entries", floor=0)
    R_SCOPE = ctx.rule("C42.scope", "bodies scanned", floor=2)
    ctx.exceptions.update({
        "C42.othersrc|hydro_lang|Backtrace::elements::{closure#4}::{closure#2}|pointer-to-integer cast":
            "the symbol address is stored in BacktraceElement.addr, a debug field that no code of hydro_lang reads (checked by C42.addr-unread below); Debug omits it",
        "C42.othersrc|hydro_lang|hydro_lang::compile::trybuild::generate::compile_trybuild_example|thread spawn":
            "a helper thread that drains the stderr pipe of the spawned cargo process into a String; it produces no generated code",
    })
    n = scan(ctx, [dl, hl], in_scope, R_HASH, R_OTHER, SITE_TABLE, "C42")
    ctx.inst(R_SCOPE, "dfir_lang", sites=len([d for d in dl.bodies if in_scope(dl, d)]))
    ctx.inst(R_SCOPE, "hydro_lang", sites=len([d for d in hl.bodies if in_scope(hl, d)]))
    ctx.extra["bodies_scanned"] = n
    # the address stored by the backtrace is never read
    R_ADDR = ctx.rule("C42.addr-unread", "BacktraceElement.addr (an ASLR-dependent value) is never read by hydro_lang", floor=1)
    reads = []
    for d, b in hl.bodies.items():
        if hl.is_test_path(d):
            continue
        for bb in range(b.n):
            for s in b.stmts(bb):
                if "rv" in s:
                    for o in s["rv"].get("ops", []):
                        p = op_place(o)
                        if p is not None and not isinstance(p, int) and any(pr.endswith(":addr") for pr in p[1:]) and "BacktraceElement" in b.locals[p[0]]:
                            reads.append((d, bb))
    ctx.inst(R_ADDR, "hydro_lang|BacktraceElement.addr", sites=len(reads))
    for d, bb in reads:
        ctx.violation(R_ADDR, "hydro_lang|%s|reads-addr" % d, "the address-dependent BacktraceElement.addr is read", hl.bodies[d].loc(bb))
