"""C05 — tombstones never resurrect (partial: the two structural guards of both tombstone merges)."""
import mir
import proto
import used
from framework import fn_key, short_ty
from lattice_common import lattice_impls, impl_key, used_rule
from mir import op_place, pl_local

LEVEL = "other"


def closure_of_local(body, local):
    ty = body.locals[local]
    return ty[len("closure#"):] if ty.startswith("closure#") else None


def flows_to(body, src_local, max_steps=12):
    """locals reachable from src_local by being passed (by value) into calls and taking the call's result, or plain moves"""
    seen = {src_local}
    work = [src_local]
    calls = []
    while work and max_steps:
        max_steps -= 1
        l = work.pop()
        for bb, t in body.calls():
            if any(op_place(a) == l for a in t["a"]):
                calls.append((bb, t, l))
                d = t.get("dst")
                if isinstance(d, int) and d not in seen:
                    seen.add(d)
                    work.append(d)
        for bb, i, lhs, rv in body.assignments():
            if isinstance(lhs, int) and lhs not in seen and rv["k"] == "use" and op_place(rv["ops"][0]) == l:
                seen.add(lhs)
                work.append(lhs)
    return seen, calls


def guard_rule(ctx, c, rid, imp, adaptor, guard_method, guard_field, sink_field, what):
    b = c.impl_method(imp, "merge")
    key = impl_key(c, imp)
    fa = proto.FnAnalysis(c, b, proto.Spec("driver"), None)
    # extend(self.<sink_field>, X)
    sinks = []
    for bb, t in b.calls():
        f = t.get("f")
        if f and f["name"] == "extend" and len(t["a"]) >= 2:
            p = op_place(t["a"][0])
            if p is not None and sink_field in fa.org.ident(p).split("."):
                sinks.append((bb, t))
    if not sinks:
        ctx.violation(rid, "%s|no-extend:%s" % (key, sink_field), "merge never extends self.%s" % sink_field, b.loc())
        return
    # adaptor(closure) calls whose closure calls guard_method on self.<guard_field>
    guarded = []   # result locals of guarded adaptor calls
    for bb, t in b.calls():
        f = t.get("f")
        if not f or f["name"] != adaptor or f.get("trait") != "core::iter::traits::iterator::Iterator":
            continue
        for a in t["a"][1:]:
            p = op_place(a)
            if isinstance(p, int):
                cdef = closure_of_local(b, p)
                cb = c.bodies.get(cdef) if cdef else None
                if cb is None:
                    continue
                org = proto.Origins(cb)
                for cbb, ct in cb.calls():
                    cf = ct.get("f")
                    if cf and cf["name"] == guard_method and ct["a"]:
                        rp = op_place(ct["a"][0])
                        if rp is not None:
                            root, path = org.origin_place(rp)
                            names = [x.lstrip("^") for x in path]
                            if guard_field in names or any(guard_field in x for x in names):
                                if isinstance(t.get("dst"), int):
                                    guarded.append((t["dst"], bb, cdef))
    ctx.inst(rid, key, sites=len(sinks), sample={"impl": key, "extend_blocks": [bb for bb, _ in sinks], "guarded_adaptors": [(bb, cd) for _, bb, cd in guarded]})
    for sbb, st in sinks:
        src = op_place(st["a"][1])
        ok = False
        for g, gbb, cdef in guarded:
            seen, _ = flows_to(b, g)
            if isinstance(src, int) and src in seen:
                ok = True
        if not ok:
            ctx.violation(rid, "%s|unguarded-extend:%s" % (key, sink_field), what, b.loc(sbb))


def run(ctx):
    ctx.explanation = ("Both tombstone lattices (set and map variant) keep 'deleted stays deleted' through two guards in merge; both are decided structurally on the MIR: the elements "
                       "extended into the live collection come through a filter whose closure tests membership in self.tombstones, and the elements extended into self.tombstones "
                       "come through an inspect whose closure removes them from the live collection; the Remove / TombstoneSet capabilities declared by the impls are exercised.")
    ctx.undecided = "order-independence over merge histories on values; equivalence of the tombstone backends (roaring / FST / hash)"
    c = mir.load_crate("lattices")
    R_F = ctx.rule("C05.filter", "elements reaching `self.set/map.extend(..)` pass a filter whose closure calls `contains` on self.tombstones", floor=2)
    R_R = ctx.rule("C05.remove", "elements reaching `self.tombstones.extend(..)` pass an inspect whose closure calls `remove` on the live collection", floor=2)
    R_U = ctx.rule("C05.used", "the Remove / TombstoneSet / Merge / IsBot capabilities declared by the tombstone Merge impls are exercised", floor=2)
    merges = [i for i in lattice_impls(c, {"lattices::Merge"}) if "WithTombstones<" in i["self"].split("<")[0] + "<"]
    if len(merges) < 2:
        ctx.anchor_missing(R_F, "Merge impls of SetUnionWithTombstones and MapUnionWithTombstones")
    for imp in merges:
        live = "set" if "SetUnionWithTombstones" in imp["self"] else "map"
        guard_rule(ctx, c, R_F, imp, "filter", "contains", "tombstones", live,
                   "elements are added to the live collection without being filtered against self.tombstones: a deleted element could be resurrected by a merge")
        guard_rule(ctx, c, R_R, imp, "inspect", "remove", live, "tombstones",
                   "tombstones are added without removing the tombstoned elements from the live collection: a deleted element would stay visible")
    used_rule(ctx, c, R_U, merges, {"lattices::collections::Remove", "lattices::tombstone::TombstoneSet", "lattices::Merge", "lattices::LatticeFrom", "lattices::IsBot",
                                     "lattices::collections::GetMut", "lattices::collections::Len"})
