"""C16 — unsync channel: waker discipline (partial)."""
import re

import mir
from framework import fn_key
from mir import op_place, pl_local, pl_projs, pl_fields

LEVEL = "other"
MOD = "dfir_rs::util::unsync::mpsc"


from util import place_has_field, derives_field, calls_on_field


def pending_assign_blocks(body):
    out = []
    for bb, i, lhs, rv in body.assignments():
        if body.is_cleanup(bb):
            continue
        if rv["k"] == "agg" and (rv.get("adt") or {}).get("def") == "core::task::poll::Poll" and rv["adt"]["variant"] == "Pending":
            out.append(bb)
    return out


def propagated_pending_blocks(body):
    """blocks dominated by the Pending edge of a switch on the result of a call returning Poll<..>: the callee, which
    produced the Pending, is the one that must have registered the waker"""
    out = set()
    for sb in range(body.n):
        ts = body.term(sb)
        if ts["k"] != "switch":
            continue
        dp = op_place(ts["d"])
        if not isinstance(dp, int):
            continue
        for db, idx, rv in body.defs_of(dp):
            if idx == "term" or rv["k"] != "discr" or not isinstance(rv["p"], int):
                continue
            src = rv["p"]
            if not body.locals[src].startswith("core::task::poll::Poll<"):
                continue
            if not any(i2 == "term" and x["k"] == "call" for _, i2, x in body.defs_of(src)):
                continue
            variants = {v: n for v, n in (rv.get("variants") or [])}
            tg = [tgt for val, tgt in ts["ts"] if variants.get(val) == "Pending"]
            if [n for v, n in variants.items() if v not in [x for x, _ in ts["ts"]]] == ["Pending"]:
                tg.append(ts["o"])
            for t0 in tg:
                for bb in range(body.n):
                    if body.dominates(t0, bb):
                        out.add(bb)
    return out


def waker_store_blocks(body):
    """blocks that store a waker: push onto a *wakers* field, or assignment to a *waker* field"""
    out = set()
    for bb in calls_on_field(body, {"push", "push_back", "insert"}, {"send_wakers"}):
        out.add(bb)
    for bb, i, lhs, rv in body.assignments():
        if not isinstance(lhs, int) and place_has_field(lhs, {"recv_waker"}) and not body.is_cleanup(bb):
            out.add(bb)
    return out


def callees(body, crate):
    for bb, t in body.calls():
        f = t.get("f")
        if f:
            d = f.get("res") or f["def"]
            if d in crate.bodies:
                yield bb, d


def run(ctx):
    ctx.explanation = ("Static waker-discipline rules on dfir_rs::util::unsync::mpsc (rustc MIR, all paths): every Pending return registers the caller's waker; "
                       "every successful pop_front / push_back / close / sender drop is followed by the matching wake on all paths; the capacity wake-up "
                       "wakes every registered sender (the waker list is neither deduplicated nor pruned on success).")
    ctx.undecided = "FIFO order and losslessness of values (VecDeque semantics), exact closure reporting values"
    ctx.assumptions = ["std VecDeque/SmallVec/RefCell behave as documented", "single-threaded use (the types are !Send)"]
    c = mir.load_crate("dfir_rs")
    bodies = [b for d, b in sorted(c.bodies.items()) if d.startswith(MOD + "::") and not c.is_test_path(d)]
    if len(bodies) < 20:
        ctx.anchor_missing("C16.pendreg", "module %s (found %d bodies)" % (MOD, len(bodies)))
        return

    # ---- pendreg
    R1 = ctx.rule("C16.pendreg", "every path that returns Poll::Pending passes through a store of the caller's waker (send_wakers.push / recv_waker = Some(..)) "
                  "after a Context::waker() call", floor=3)
    for b in bodies:
        prop = propagated_pending_blocks(b)
        pend = [pb for pb in pending_assign_blocks(b) if pb not in prop]
        if not pend:
            continue
        key = "dfir_rs|" + fn_key(c, b)
        stores = waker_store_blocks(b)
        wk = set(bb for bb, t in b.calls() if t.get("f") and t["f"]["name"] == "waker" and "task::wake" in t["f"]["def"])
        ctx.inst(R1, key, sites=len(pend), sample={"function": b.def_path, "pending_blocks": pend, "waker_store_blocks": sorted(stores), "file": b.loc()})
        for pb in pend:
            ok1, _ = b.all_paths_pass(stores - {pb} if pb not in stores else set(), {pb}) if pb not in stores else (True, None)
            ok2, _ = b.all_paths_pass(wk, {pb})
            if not (ok1 and ok2):
                path = b.find_path(0, {pb}, avoid=stores if not ok1 else wk)
                ctx.violation(R1, key + "|pending-without-waker", "a path returns Poll::Pending without having stored the caller's waker "
                              "(no wake-up will ever re-poll this task)", b.loc(pb), {"path_blocks": path})

    # ---- wakeafter
    R2 = ctx.rule("C16.wakeafter", "after a pop_front that yielded Some the sender side is woken, after every push_back the receiver is woken, "
                  "Receiver::close wakes all senders, Sender::drop wakes the receiver - on all paths to return", floor=5)
    wake_recv = set(d for d in c.bodies if d.startswith(MOD) and d.endswith("::wake_receiver"))
    wake_send = set(d for d in c.bodies if d.startswith(MOD) and (d.endswith("::wake_sender") or d.endswith("::wake_all_senders")))
    if not wake_recv or not wake_send:
        ctx.anchor_missing(R2, "wake_receiver / wake_sender functions in " + MOD)
    for b in bodies:
        key = "dfir_rs|" + fn_key(c, b)
        rets = set(b.returns())
        wr_blocks = set(bb for bb, d in callees(b, c) if d in wake_recv)
        ws_blocks = set(bb for bb, d in callees(b, c) if d in wake_send)
        for bb in calls_on_field(b, {"push_back"}, {"buffer"}):
            ctx.inst(R2, key + "|push_back", sample={"function": b.def_path, "at": b.loc(bb), "wake_blocks": sorted(wr_blocks)})
            starts = b.succs(bb)
            for s in starts:
                ok, ex = b.all_paths_pass(wr_blocks, rets, start=s)
                if not ok:
                    ctx.violation(R2, key + "|push-without-wake", "an item is pushed onto the buffer and a path reaches return without waking the receiver",
                                  b.loc(bb), {"path_blocks": b.find_path(s, rets, avoid=wr_blocks)})
        for bb in calls_on_field(b, {"pop_front"}, {"buffer"}):
            ctx.inst(R2, key + "|pop_front", sample={"function": b.def_path, "at": b.loc(bb), "wake_blocks": sorted(ws_blocks)})
            t = b.term(bb)
            dst = t.get("dst")
            some_targets = set()
            for sb in range(b.n):
                ts = b.term(sb)
                if ts["k"] != "switch":
                    continue
                dp = op_place(ts["d"])
                if not isinstance(dp, int):
                    continue
                for db, idx, rv in b.defs_of(dp):
                    if idx != "term" and rv["k"] == "discr" and rv["p"] == dst:
                        variants = {v: n for v, n in (rv.get("variants") or [])}
                        for val, tgt in ts["ts"]:
                            if variants.get(val) == "Some":
                                some_targets.add(tgt)
                        if [n for v, n in variants.items() if v not in [x for x, _ in ts["ts"]]] == ["Some"]:
                            some_targets.add(ts["o"])
            if not some_targets:
                ctx.violation(R2, key + "|pop-unmatched", "cannot find the Some edge of the pop_front result", b.loc(bb))
            for s in some_targets:
                ok, ex = b.all_paths_pass(ws_blocks, rets, start=s)
                if not ok:
                    ctx.violation(R2, key + "|pop-without-wake", "an item is taken from the buffer and a path reaches return without waking a waiting sender",
                                  b.loc(bb), {"path_blocks": b.find_path(s, rets, avoid=ws_blocks)})
    # close / drop
    for suffix, wake_set, what in (("::close", wake_send, "Receiver::close wakes all senders"),):
        found = False
        for b in bodies:
            if b.def_path.endswith(suffix) and b.kind == "AssocFn":
                found = True
                key = "dfir_rs|" + fn_key(c, b)
                blocks = set(bb for bb, d in callees(b, c) if d.endswith("::wake_all_senders"))
                ctx.inst(R2, key + "|close")
                ok, ex = b.all_paths_pass(blocks, set(b.returns()))
                if not ok:
                    ctx.violation(R2, key + "|close-without-wake", "Receiver::close can return without waking all waiting senders", b.loc())
                # the wake must act on the shared state that holds the waiters: it has to happen before `self.strong` is replaced
                swaps = set()
                for bb2, i2, lhs, rv in b.assignments():
                    if not isinstance(lhs, int) and "strong" in mir.pl_fields(lhs) and not b.is_cleanup(bb2):
                        swaps.add(bb2)
                for bb2 in range(b.n):
                    t2 = b.term(bb2)
                    if t2["k"] == "drop" and not isinstance(t2["p"], int) and "strong" in mir.pl_fields(t2["p"]) and not b.is_cleanup(bb2):
                        swaps.add(bb2)
                ctx.inst(R2, key + "|close-order", sites=len(swaps), sample={"wake_blocks": sorted(blocks), "strong_replacement_blocks": sorted(swaps)})
                for sw in sorted(swaps):
                    late = [w for w in blocks if w in b.reachable(start=sw) and not b.dominates(w, sw)]
                    if late and not any(b.dominates(w, sw) for w in blocks):
                        ctx.violation(R2, key + "|wake-after-swap", "Receiver::close wakes the senders only after `self.strong` was replaced: the wake-up acts on the fresh, empty waiter list and the "
                                      "senders registered in the old shared state are dropped unwoken", b.loc(sw))
        if not found:
            ctx.anchor_missing(R2, "Receiver::close")
    found = False
    for imp in c.impls_of_trait("ops::drop::Drop"):
        if imp["self"].startswith(MOD + "::Sender<"):
            b = c.impl_method(imp, "drop")
            if b is None:
                continue
            found = True
            key = "dfir_rs|" + fn_key(c, b)
            blocks = set(bb for bb, d in callees(b, c) if d in wake_recv)
            ctx.inst(R2, key + "|drop")
            # on the path where the channel is still alive (upgrade -> Some)
            if not blocks:
                ctx.violation(R2, key + "|drop-without-wake", "dropping a Sender never wakes the receiver (a receiver waiting for closure would hang)", b.loc())
    if not found:
        ctx.anchor_missing(R2, "impl Drop for Sender")

    # ---- wakepolicy
    R3 = ctx.rule("C16.wakepolicy", "a waker list that is pushed on every pending poll without per-waiter dedup (will_wake) and without removal on success can hold stale "
                  "entries, so the wake-up issued when capacity frees must wake every entry (drain/iterate), not pop one", floor=1)
    push_fns = [b for b in bodies if calls_on_field(b, {"push"}, {"send_wakers"})]
    dedup = all(any(t.get("f") and t["f"]["name"] == "will_wake" for _, t in b.calls()) for b in push_fns) if push_fns else False
    cap_wake = set()
    for b in bodies:
        if calls_on_field(b, {"pop_front"}, {"buffer"}):
            for bb, d in callees(b, c):
                if d in wake_send:
                    cap_wake.add(d)
    if not push_fns or not cap_wake:
        ctx.anchor_missing(R3, "send_wakers push sites / capacity wake function")
    for d in sorted(cap_wake):
        b = c.bodies[d]
        key = "dfir_rs|" + fn_key(c, b)
        # follow same-module helpers one level
        todo = [b] + [c.bodies[x] for _, x in callees(b, c) if x.startswith(MOD)]
        single = []
        allw = []
        for fb in todo:
            single += [(fb, bb) for bb in calls_on_field(fb, {"pop", "pop_front", "pop_back", "swap_remove", "remove", "first", "last"}, {"send_wakers"})]
            allw += [(fb, bb) for bb in calls_on_field(fb, {"drain", "iter", "into_iter", "iter_mut", "clear", "take"}, {"send_wakers"})]
        ctx.inst(R3, key, sites=len(single) + len(allw), sample={"function": d, "push_sites": [x.def_path for x in push_fns], "push_sites_deduplicated": dedup,
                                                                "single_entry_wakes": len(single), "wake_all_sites": len(allw)})
        if single and not dedup:
            fb, bb = single[0]
            ctx.violation(R3, key + "|wake-one-of-possibly-stale-list",
                          "the capacity wake-up pops a single entry of send_wakers, but entries are pushed on every pending poll (no will_wake dedup, no removal on "
                          "success): a stale or duplicate entry can consume the wake-up and strand a sender that is still waiting", fb.loc(bb))
        elif not single and not allw:
            ctx.violation(R3, key + "|no-wake", "the capacity wake-up function wakes nobody", b.loc())
