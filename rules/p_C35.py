"""C35 — messages survive serialisation and reach the addressed member (partial; the member-id round trip is decided completely)."""
import re

import hydroapi as A
import mir
import synfacts
from framework import fn_key
from mir import op_place, pl_local, pl_fields

LEVEL = "other"
NETFILE = "hydro_lang/src/live_collections/stream/networking.rs"


def run(ctx):
    ctx.explanation = ("(1) MemberId::into_tagless / from_tagless are pure field projection / injection (MIR: one move of `inner`, no call other than PhantomData's Default), so the round trip through "
                       "the untyped form is the identity — decided completely. (2) Sibling agreement of the serialise / deserialise halves: every SerKind impl instantiates both thunks at its own "
                       "`T`; every NetworkFor impl forwards both thunks to the same serialisation backend; every function that builds HydroNode::Network takes serialize_fn and deserialize_fn "
                       "from the same `<N as NetworkFor<T>>` instance (identical generic arguments). (3) The four code templates (syn): the serialise and deserialise templates use the same codec "
                       "module for `serialize` / `deserialize`, both are parametrised by the payload type slot `#t_type`, the demux template strips the member id with into_tagless and the tagged "
                       "template restores it with from_tagless at the sender's cluster type slot.")
    ctx.undecided = "bincode's own round trip for every payload type; routing at run time (which TCP connection a demuxed item takes: sinktools::demux_map, C14)"
    c = mir.load_crate("hydro_lang")
    # ---------------- tagless
    RT = ctx.rule("C35.tagless", "MemberId::into_tagless and from_tagless are pure projection / injection of the `inner` field", floor=2)
    it = [b for d, b in c.bodies.items() if d.endswith("::into_tagless") and "member_id" in d]
    ft = [b for d, b in c.bodies.items() if d.endswith("::from_tagless") and "member_id" in d]
    if not it or not ft:
        ctx.anchor_missing(RT, "MemberId::into_tagless / from_tagless")
    for b in it:
        k = "hydro_lang|" + fn_key(c, b)
        calls = [t["f"]["name"] for bb, t in b.calls() if t.get("f")]
        rets = [(bb, idx, rv) for bb, idx, rv in b.defs_of(0)]
        ok = not calls and len(rets) == 1 and rets[0][1] != "term" and rets[0][2]["k"] == "use" and pl_local(op_place(rets[0][2]["ops"][0]) or 0) == 1 \
            and pl_fields(op_place(rets[0][2]["ops"][0])) == ["inner"]
        ctx.inst(RT, k, sample={"calls": calls})
        if not ok:
            ctx.violation(RT, k + "|not-a-projection", "into_tagless is no longer the plain projection of `inner` (calls: %s): ids may not round-trip unchanged" % calls, b.loc())
    for b in ft:
        k = "hydro_lang|" + fn_key(c, b)
        calls = [t["f"] for bb, t in b.calls() if t.get("f")]
        other = [f["name"] for f in calls if not (f["name"] == "default" and "PhantomData" in (f.get("self") or f.get("impl_self") or f["def"]))]
        aggs = []
        for bb in range(b.n):
            for st in b.stmts(bb):
                rv = st.get("rv")
                if rv and rv["k"] == "agg" and rv.get("agg") == "adt" and rv["adt"]["def"].endswith("MemberId"):
                    aggs.append(rv)
        ok = not other and len(aggs) == 1
        if ok:
            fields = aggs[0]["adt"].get("fields") or []
            op = aggs[0]["ops"][fields.index("inner")] if "inner" in fields else aggs[0]["ops"][0]
            p = op_place(op)
            ok = p is not None and _root_param(b, pl_local(p)) == 1
        ctx.inst(RT, k, sample={"other_calls": other})
        if not ok:
            ctx.violation(RT, k + "|not-an-injection", "from_tagless no longer stores its argument unchanged into `inner` (other calls: %s)" % other, b.loc())
    # ---------------- siblings
    RS = ctx.rule("C35.sib", "serialise and deserialise halves are taken from the same instance (same backend, same payload type)", floor=9)
    by_root = {}
    for d, b in sorted(c.bodies.items()):
        if c.is_test_path(d):
            continue
        for bb, t in b.calls():
            f = t.get("f")
            if f and f["name"] in ("serialize_thunk", "deserialize_thunk", "serialize_bincode", "deserialize_bincode"):
                by_root.setdefault(b.root, []).append((f["name"], f["def"], tuple(f.get("args") or []), b.loc(bb)))
    # (a) each impl of a *_thunk pair: group by impl
    impls = {}
    for root, lst in by_root.items():
        fn = c.fns.get(root)
        if fn and fn["name"] in ("serialize_thunk", "deserialize_thunk") and fn.get("impl"):
            impls.setdefault(fn["impl"], {})[fn["name"]] = lst
    for imp, d in sorted(impls.items()):
        i = c.impls[imp]
        k = "hydro_lang|impl %s for %s" % (i.get("trait", "").split("::")[-1], i["self"].split("::")[-1])
        ctx.inst(RS, k, sample={"serialize": [x[:3] for x in d.get("serialize_thunk", [])], "deserialize": [x[:3] for x in d.get("deserialize_thunk", [])]})
        s = d.get("serialize_thunk", [])
        de = d.get("deserialize_thunk", [])
        if len(s) != 1 or len(de) != 1:
            ctx.violation(RS, k + "|thunk-shape", "a thunk pair does not consist of exactly one forwarding call each", "%s:%s" % (i["file"], i["line"]))
            continue
        sa, da = s[0], de[0]
        if sa[2] != da[2] or sa[0].replace("serialize", "") != da[0].replace("deserialize", "") or sa[1].rsplit("::", 1)[0] != da[1].rsplit("::", 1)[0]:
            ctx.violation(RS, k + "|mismatched-halves", "serialize half uses %s%s but deserialize half uses %s%s: the receiver would decode with a different type / backend" % (
                sa[1], list(sa[2]), da[1], list(da[2])), sa[3])
    # (b) network constructors
    cons = A.node_constructions(c)
    for root, lst in sorted(cons.items()):
        if not any(v == "Network" for v, _b, _bb, _st in lst) or root.endswith("deep_clone"):
            continue
        k = "hydro_lang|%s|Network" % (fn_key(c, c.bodies[root]) if root in c.bodies else root)
        calls = [x for x in by_root.get(root, []) if x[0] in ("serialize_thunk", "deserialize_thunk")]
        s = [x for x in calls if x[0] == "serialize_thunk"]
        de = [x for x in calls if x[0] == "deserialize_thunk"]
        ctx.inst(RS, k, sample={"serialize": [x[:3] for x in s], "deserialize": [x[:3] for x in de]})
        if len(s) != 1 or len(de) != 1:
            ctx.violation(RS, k + "|thunk-shape", "a Network node is built without exactly one serialize_thunk and one deserialize_thunk call in its constructor", c.bodies[root].loc() if root in c.bodies else "")
            continue
        if s[0][2] != de[0][2]:
            ctx.violation(RS, k + "|mismatched-halves", "serialize_fn comes from %s but deserialize_fn from %s: payload type or network configuration differ between sender and receiver" % (
                list(s[0][2]), list(de[0][2])), s[0][3])
    # ---------------- templates
    RC = ctx.rule("C35.codec", "serialise/deserialise templates: same codec module, both parametrised by #t_type, into_tagless paired with from_tagless", floor=4)
    sf = synfacts.scan([NETFILE])[NETFILE]
    ser = [m for m in sf["macros"] if m["fn"].endswith("serialize_bincode_with_type") and not m["fn"].endswith("deserialize_bincode_with_type") and m["macro"] in ("parse_quote", "quote")]
    de = [m for m in sf["macros"] if m["fn"].endswith("deserialize_bincode_with_type") and m["macro"] in ("parse_quote", "quote")]
    if len(ser) < 2 or len(de) < 2:
        ctx.anchor_missing(RC, "templates of serialize_bincode_with_type / deserialize_bincode_with_type")
        return
    codec_s = set()
    codec_d = set()
    for m in ser:
        k = "hydro_lang|serialize_bincode_with_type|%s" % ("demux" if any("is_demux" in x and x.startswith("if") for x in m["conds"]) else "plain")
        ctx.inst(RC, k, sample={"template": m["text"][:200]})
        mm = re.findall(r"([A-Za-z_]+) :: serialize \(", m["text"])
        codec_s |= set(mm)
        if "# t_type" not in m["text"]:
            ctx.violation(RC, k + "|no-type-slot", "the serialise template is not parametrised by the payload type (#t_type)", "%s:%s" % (NETFILE, m["line"]))
        if k.endswith("demux") and not re.search(r"id \. into_tagless \( \)", m["text"]):
            ctx.violation(RC, k + "|tagless", "the demux serialise template does not convert the destination id with into_tagless()", "%s:%s" % (NETFILE, m["line"]))
        if not mm:
            ctx.violation(RC, k + "|no-codec", "no `<codec>::serialize(` call in the serialise template", "%s:%s" % (NETFILE, m["line"]))
    for m in de:
        tagged = any(x.startswith("if") and "tagged" in x for x in m["conds"])
        k = "hydro_lang|deserialize_bincode_with_type|%s" % ("tagged" if tagged else "plain")
        ctx.inst(RC, k, sample={"template": m["text"][:200]})
        mm = re.findall(r"([A-Za-z_]+) :: deserialize ::<# t_type >", m["text"])
        codec_d |= set(mm)
        if not mm:
            ctx.violation(RC, k + "|no-type-slot", "the deserialise template does not decode at the payload type slot (`<codec>::deserialize::<#t_type>`)", "%s:%s" % (NETFILE, m["line"]))
        if tagged and not re.search(r"MemberId ::<# c_type >:: from_tagless \( id", m["text"]):
            ctx.violation(RC, k + "|tagless", "the tagged deserialise template does not rebuild the sender id with MemberId::<#c_type>::from_tagless(id ..)", "%s:%s" % (NETFILE, m["line"]))
    if codec_s != codec_d or len(codec_s) != 1:
        ctx.violation(RC, "hydro_lang|codec-pair", "serialise templates use codec module(s) %s but deserialise templates use %s" % (sorted(codec_s), sorted(codec_d)), NETFILE)
    unordered_rule(ctx)



def _root_param(b, local, depth=0):
    if 1 <= local <= b.argc:
        return local
    if depth > 5:
        return None
    defs = b.defs_of(local)
    if len(defs) != 1 or defs[0][1] == "term":
        return None
    rv = defs[0][2]
    if rv["k"] == "use":
        p = op_place(rv["ops"][0])
        if isinstance(p, int):
            return _root_param(b, p, depth + 1)
    return None


def unordered_rule(ctx):
    """Member / port ids of a demux connection are attached to the connection futures *before* they are raced: `FuturesUnordered` yields in completion order, so a
    collection of un-keyed results (a `Vec<Conn>`) must never be re-associated with keys by position (zip / enumerate / indexing). Keyed results (tuples) and
    order-insensitive targets (maps) are fine; an un-keyed Vec is fine as long as nothing positional touches it (the `Merge` case)."""
    R = ctx.rule("C35.unordered", "results raced through FuturesUnordered in the deploy integration keep their id: un-keyed result vectors are never zipped / enumerated / indexed", floor=4)
    c = mir.load_crate("hydro_deploy_integration")
    n = 0
    for d, b in sorted(c.bodies.items()):
        if c.is_test_path(d):
            continue
        unkeyed = []
        for bb, t in b.calls():
            f = t.get("f") or {}
            if f.get("name") != "collect" or "FuturesUnordered" not in (f.get("self") or ""):
                continue
            target = (f.get("args") or [""])[-1]
            n += 1
            key = "hydro_deploy_integration|%s|collect#%d" % (fn_key(c, b), n)
            m = re.match(r"^alloc::vec::Vec<(.*), alloc::alloc::Global>$", target)
            keyed = bool(m and m.group(1).startswith("("))
            is_map = "BTreeMap<" in target or "HashMap<" in target
            ctx.inst(R, key, sample={"into": target[:100], "keyed": keyed or is_map})
            if m and not keyed:
                unkeyed.append((bb, m.group(1)))
            elif not m and not is_map:
                ctx.violation(R, "hydro_deploy_integration|%s|unordered-into-%s" % (fn_key(c, b), target.split("<")[0].split("::")[-1]), "results of a FuturesUnordered are collected into `%s`: "
                              "neither keyed nor an order-insensitive map" % target[:80], b.loc(bb))
        for bb0, elem in unkeyed:
            for bb, t in b.calls():
                f = t.get("f") or {}
                if f.get("name") not in ("zip", "enumerate", "index", "index_mut", "get", "get_mut", "swap_remove", "remove"):
                    continue
                tys = [(f.get("self") or "")] + list(f.get("args") or [])
                for a in t.get("a", []):
                    pp = op_place(a)
                    if pp is not None:
                        tys.append(b.locals[pl_local(pp)])
                if any(("Vec<%s" % elem) in x or ("IntoIter<%s" % elem) in x or ("[%s]" % elem) in x for x in tys):
                    ctx.violation(R, "hydro_deploy_integration|%s|positional-%s" % (fn_key(c, b), f.get("name")), "a vector of un-keyed results raced through FuturesUnordered (`Vec<%s>`, completion "
                                  "order) is associated with positions by `%s`: ids and connections can be paired wrongly" % (elem.split("::")[-1], f.get("name")), b.loc(bb))
