"""tiny abstract interpreter: executes a loop-free MIR body whose control flow depends only on discriminants of given
root places; used to read total functions on small enum domains off the compiled match (decision table extraction)."""
from mir import op_place, pl_local, pl_projs


def canon(alias, place):
    if isinstance(place, int):
        return alias.get(place, (place,))
    base = alias.get(place[0])
    if base is not None:
        return tuple(base) + tuple(place[1:])
    return tuple(place)


def run(body, oracle, max_steps=400, call_oracle=None, start=0):
    """oracle(canonical place tuple, variants dict value->name) -> discriminant value (int) or None if unknown.
    returns (result, trace) where result = ('ret', consts dict local->const string) | ('unreachable',) | ('unknown', why)"""
    alias = {}
    vals = {}      # local -> int (discriminant / const) or const string
    bb = start
    trace = []
    for _ in range(max_steps):
        trace.append(bb)
        for s in body.stmts(bb):
            if "lhs" not in s:
                continue
            lhs, rv = s["lhs"], s["rv"]
            if not isinstance(lhs, int):
                continue
            alias.pop(lhs, None)
            vals.pop(lhs, None)
            if rv["k"] == "use":
                o = rv["ops"][0]
                p = op_place(o)
                if p is not None:
                    alias[lhs] = canon(alias, p)
                    if isinstance(p, int) and p in vals:
                        vals[lhs] = vals[p]
                elif "c" in o:
                    vals[lhs] = o["c"]
            elif rv["k"] in ("ref", "refmut"):
                alias[lhs] = canon(alias, rv["p"])
            elif rv["k"] == "discr":
                variants = {v: n for v, n in (rv.get("variants") or [])}
                v = oracle(canon(alias, rv["p"]), variants)
                if v is None:
                    return ("unknown", "discriminant of %s" % (canon(alias, rv["p"]),)), trace
                vals[lhs] = v
            elif rv["k"] == "agg" and rv["agg"] == "tuple":
                pass
        t = body.term(bb)
        k = t["k"]
        if k == "return":
            return ("ret", dict(vals)), trace
        if k == "unreachable":
            return ("unreachable",), trace
        if k in ("goto", "falseedge", "drop", "assert"):
            bb = t["t"]
        elif k == "call":
            d = t.get("dst")
            if isinstance(d, int):
                alias.pop(d, None)
                vals.pop(d, None)
                f = t.get("f")
                if f and t["a"]:
                    p = op_place(t["a"][0])
                    alias[d] = ("call:" + f["name"],) + tuple(canon(alias, a_) if (a_ := op_place(x)) is not None else ("const",) for x in t["a"][1:2]) if False else ("call:" + f["name"], tuple(canon(alias, op_place(x)) if op_place(x) is not None else ("const",) for x in t["a"]))
            if call_oracle is not None and isinstance(d, int) and t.get("f"):
                cv = call_oracle(t["f"]["name"], t)
                if cv is not None:
                    vals[d] = cv
            if t.get("t") is None:
                return ("diverges",), trace
            bb = t["t"]
        elif k == "switch":
            p = op_place(t["d"])
            v = vals.get(p) if isinstance(p, int) else None
            if v in ("true", "false"):
                v = 1 if v == "true" else 0
            if not isinstance(v, int):
                return ("unknown", "switch on non-discriminant in bb%d" % bb), trace
            tgt = t["o"]
            for val, b2 in t["ts"]:
                if val == v:
                    tgt = b2
            bb = tgt
        else:
            return ("unknown", "terminator " + k), trace
    return ("unknown", "step limit"), trace
