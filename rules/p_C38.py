"""C38 — simulator replays deterministically (claimed: absence of every other source of nondeterminism in the sim runtime)."""
import mir
import nosrc
from framework import fn_key
from p_C42 import scan

LEVEL = "other"

SITE_TABLE = {
    "hydro_lang|CompiledSimInstance::run_without_launching::{closure#0}|values|std-hash-collection":
        "moves each registered port's channel ends from one map into per-kind maps keyed by the port (insert per key); per-key inserts commute (the code's own #[expect] reason)",
}


def in_scope(c, d):
    return (d.startswith("hydro_lang::sim::runtime") or d.startswith("hydro_lang::sim::compiled")) and not c.is_test_path(d)


def run(ctx):
    ctx.explanation = ("A replay can only diverge through a source of nondeterminism other than the recorded decisions. Exhaustive scan of the type-checked simulator runtime "
                       "(hydro_lang::sim::runtime, hydro_lang::sim::compiled): no hash-order iteration over RandomState collections (type-based, incl. into_iter/retain/drain), no clock, "
                       "no OS/thread randomness, no pointer-to-integer cast, no thread spawn; randomness comes only from the bolero driver.")
    ctx.undecided = "determinism of the user program's own closures and of tokio's single-threaded scheduler (trusted)"
    ctx.assumptions = ["FxHashMap iteration order is a function of the insertion history", "environment variables are inputs of a run"]
    hl = mir.load_crate("hydro_lang")
    R_HASH = ctx.rule("C38.hashorder", "no hash-order iteration over RandomState collections in the sim runtime, except classified sites", floor=1)
    R_OTHER = ctx.rule("C38.othersrc", "no clock, OS randomness, pointer->integer cast or thread spawn in the sim runtime", floor=0)
    R_SCOPE = ctx.rule("C38.scope", "bodies scanned", floor=1)
    n = scan(ctx, [hl], in_scope, R_HASH, R_OTHER, SITE_TABLE, "C38")
    ctx.inst(R_SCOPE, "hydro_lang::sim::{runtime,compiled}", sites=n)
    if n < 100:
        ctx.anchor_missing(R_SCOPE, "sim runtime bodies (found %d)" % n)
    # randomness only from the driver
    R_RNG = ctx.rule("C38.rng", "decisions are produced only through the bolero driver (generate / produce) - no other generator is called", floor=1)
    gens = {}
    for d, b in sorted(hl.bodies.items()):
        if not in_scope(hl, d):
            continue
        for bb, t in b.calls():
            f = t.get("f")
            if not f:
                continue
            dd = f.get("res") or f["def"]
            if dd.startswith("bolero") and f["name"] in ("generate", "produce", "gen", "gen_range", "mutate"):
                gens.setdefault(dd, []).append(b.loc(bb))
    ctx.inst(R_RNG, "hydro_lang|sim driver calls", sites=sum(len(v) for v in gens.values()), sample={"driver_callees": {k: len(v) for k, v in gens.items()}})
    if not gens:
        ctx.anchor_missing(R_RNG, "bolero driver calls in sim runtime")
