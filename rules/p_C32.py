"""C32 — library-internal order/retry assumptions are justified (partial: they are enumerable, private, and reviewed)."""
import hydroapi as A
import hydrotypes as H
import mir
from framework import fn_key

LEVEL = "other"

# helpers that change what a collection's type claims without a user-supplied guard being checked by the type system
TRUSTED_HELPERS = ("assume_ordering_trusted", "assume_retries_trusted", "assume_ordering_trusted_bounded", "cast_at_most_one_element", "cast_at_most_one_key",
                   "cast_at_most_one_entry_per_key", "assert_has_consistency_of_trusted")

# Reviewed library-internal assumptions.  key = "<function>|<callee>" -> (allowed strengthenings, reason).
# The strengthenings are the ground (input guarantee -> output guarantee) steps the call performs under the instantiations the function's own where-clauses admit;
# a site may perform a subset of what was reviewed, never more.  Reasons are the repository's own nondet!(/** .. */) texts or the documented operator semantics.
REVIEWED = {
    'hydro_lang::live_collections::keyed_singleton::into_singleton_inside_tick|assume_ordering_trusted': ({'order NoOrder->TotalOrder @retries=ExactlyOnce,bound=Bounded'},
        'entries are folded into a HashMap, insertion order is irrelevant (input exactly-once, bounded)'),
    'KeyedSingleton<K, V, L, B>::into_singleton|assume_ordering_trusted': ({'order NoOrder->TotalOrder @retries=ExactlyOnce,bound=Unbounded', 'order NoOrder->TotalOrder @retries=ExactlyOnce,bound=Bounded'},
        'entries are folded into a HashMap, insertion order is irrelevant (input exactly-once)'),
    'KeyedSingleton<K, V, L, B>::get_max_key|assume_ordering_trusted': ({'order NoOrder->TotalOrder @retries=ExactlyOnce,bound=Unbounded', 'order NoOrder->TotalOrder @retries=ExactlyOnce,bound=Bounded'},
        'one element per key and keys are totally ordered: max over keys is commutative (input exactly-once)'),
    'KeyedStream<K, V, L, B, O, R>::value_counts|assume_ordering_trusted': ({'order NoOrder->TotalOrder @retries=ExactlyOnce,bound=Unbounded', 'order NoOrder->TotalOrder @retries=ExactlyOnce,bound=Bounded'},
        'ordering within each group affects neither result nor intermediates (input exactly-once)'),
    'Stream<T, L, B, O, R>::first|assume_retries_trusted': ({'retries AtLeastOnce->ExactlyOnce @order=TotalOrder,bound=Unbounded', 'retries AtLeastOnce->ExactlyOnce @order=TotalOrder,bound=Bounded'},
        'first is idempotent — reviewed only for a totally ordered input (O: IsOrdered)'),
    'Stream<T, L, B, O, R>::last|assume_retries_trusted': ({'retries AtLeastOnce->ExactlyOnce @order=TotalOrder,bound=Unbounded', 'retries AtLeastOnce->ExactlyOnce @order=TotalOrder,bound=Bounded'},
        'last is idempotent — reviewed only for a totally ordered input (O: IsOrdered)'),
    'Stream<T, L, B, O, R>::max|assume_retries_trusted': ({'retries AtLeastOnce->ExactlyOnce @order=TotalOrder,bound=Unbounded', 'retries AtLeastOnce->ExactlyOnce @order=NoOrder,bound=Unbounded', 'retries AtLeastOnce->ExactlyOnce @order=TotalOrder,bound=Bounded', 'retries AtLeastOnce->ExactlyOnce @order=NoOrder,bound=Bounded'},
        'max is idempotent'),
    'Stream<T, L, B, O, R>::max|assume_ordering_trusted_bounded': ({'order NoOrder->TotalOrder @retries=ExactlyOnce,bound=Unbounded', 'order NoOrder->TotalOrder @retries=ExactlyOnce,bound=Bounded'},
        'max is commutative, order only affects intermediates (hidden by the bounded variant); applied after retries were made exactly-once'),
    'Stream<T, L, B, O, R>::min|assume_retries_trusted': ({'retries AtLeastOnce->ExactlyOnce @order=TotalOrder,bound=Unbounded', 'retries AtLeastOnce->ExactlyOnce @order=NoOrder,bound=Unbounded', 'retries AtLeastOnce->ExactlyOnce @order=TotalOrder,bound=Bounded', 'retries AtLeastOnce->ExactlyOnce @order=NoOrder,bound=Bounded'},
        'min is idempotent'),
    'Stream<T, L, B, O, R>::min|assume_ordering_trusted_bounded': ({'order NoOrder->TotalOrder @retries=ExactlyOnce,bound=Unbounded', 'order NoOrder->TotalOrder @retries=ExactlyOnce,bound=Bounded'},
        'min is commutative, order only affects intermediates; applied after retries were made exactly-once'),
    'Stream<T, L, B, O, ExactlyOnce>::count|assume_ordering_trusted': ({'order NoOrder->TotalOrder @retries=ExactlyOnce,bound=Unbounded', 'order NoOrder->TotalOrder @retries=ExactlyOnce,bound=Bounded'},
        'order affects neither the eventual count nor intermediate states; input is ExactlyOnce by the impl header'),
    'Stream<T, L, B, O, R>::is_empty|assume_ordering_trusted': ({'order NoOrder->TotalOrder @retries=AtLeastOnce,bound=Bounded', 'order NoOrder->TotalOrder @retries=ExactlyOnce,bound=Bounded'},
        'is_empty intermediates unaffected by order; input bounded'),
    'Stream<T, L, B, O, R>::repeat_with_keys|assume_ordering_trusted': ({'order NoOrder->TotalOrder @retries=ExactlyOnce,bound=Bounded'},
        'keyed stream does not depend on ordering of keys; input bounded, exactly-once'),
}
SHAPE_REVIEWED = {
    "KeyedSingleton<K, V, L, B>::get|cast_at_most_one_element": "a keyed singleton has at most one value per key, so the filtered stream has at most one element",
    "KeyedSingleton<K, V, L, B>::join_keyed_singleton|cast_at_most_one_entry_per_key": "join of two one-value-per-key collections has one entry per key",
    "KeyedSingleton<K, V, L, B>::lookup_keyed_singleton|cast_at_most_one_entry_per_key": "lookup against a one-value-per-key collection yields one entry per key",
    "KeyedStream<K, V, L, B, O, R>::fold_early_stop|cast_at_most_one_entry_per_key": "the generator returns at most one value per key",
    "KeyedStream<K, V, L, B, O, R>::get|cast_at_most_one_key": "filtering on a single key leaves at most one key",
}
CONSISTENCY_REVIEWED = {
    "hydro_lang::location::Location::source_interval|assert_has_consistency_of_trusted": "a local timer source is trivially consistent with itself",
    "hydro_lang::location::Location::source_interval_delayed|assert_has_consistency_of_trusted": "a local timer source is trivially consistent with itself",
    "Stream<T, Process<L>, B, O, R>::broadcast_closed|assert_has_consistency_of_trusted": "consistency level is taken from the network's own guarantee type (N::ConsistencyGuarantee)",
    "Stream<T, Cluster<L, C>, B, O, R>::broadcast_closed|assert_has_consistency_of_trusted": "consistency level is taken from the network's own guarantee type (N::ConsistencyGuarantee)",
}


def run(ctx):
    ctx.explanation = ("Operators that internally assume an ordering or exactly-once delivery do so by calling a small set of crate-private helpers that re-type a collection without a "
                       "user-visible guard. Decided statically: (1) these helpers (assume_*_trusted, cast_at_most_one_*, assert_has_consistency_of_trusted) are not `pub`, and ObserveNonDet{trusted: true} "
                       "/ unguarded Cast strengthening is built nowhere else; (2) every call of such a helper in hydro_lang is analysed under all instantiations its enclosing function's where-clauses "
                       "admit (same solver as C29): calls that never strengthen a guarantee are justified by the types alone (weaken_ordering, make_totally_ordered under `O: IsOrdered`, ...); every "
                       "other call must be an entry of the reviewed table with at most the reviewed strengthenings — so a new assumption, or a loosened bound that widens what an existing one assumes "
                       "(e.g. dropping `O: IsOrdered` from first()), is reported; (3) every NonDet guard that library code fabricates (rather than forwarding its caller's) for a public "
                       "nondeterministic API is counted and listed per function.")
    ctx.undecided = "that each reviewed justification is true for all inputs (that max really is commutative, ...)"
    c = mir.load_crate("hydro_lang")
    S = H.Solver(c)
    RP = ctx.rule("C32.private", "the re-typing helpers are crate-private", floor=len(TRUSTED_HELPERS))
    found = {}
    for d, fn in sorted(c.fns.items()):
        if fn["name"] in TRUSTED_HELPERS and not c.is_test_path(d):
            found.setdefault(fn["name"], []).append(fn)
    for h in TRUSTED_HELPERS:
        if h not in found:
            ctx.anchor_missing(RP, h)
    for h, fns in sorted(found.items()):
        for fn in fns:
            k = "hydro_lang|%s" % fn_key(c, c.bodies[fn["def"]]) if fn["def"] in c.bodies else "hydro_lang|" + fn["def"]
            ctx.inst(RP, k, sample={"vis": fn["vis"]})
            if fn["pub"]:
                ctx.violation(RP, k + "|public", "`%s` is public: user code could re-type a collection (claim an order / exactly-once / cardinality) without a NonDet guard" % h, "%s:%s" % (fn["file"], fn["line"]))
    # trusted ObserveNonDet only inside the helpers
    RT = ctx.rule("C32.trustednode", "ObserveNonDet{trusted: true} is constructed only inside the private helpers", floor=2)
    for root, lst in sorted(A.node_constructions(c).items()):
        for v, body, bb, st in lst:
            if v != "ObserveNonDet" or root.endswith("deep_clone"):
                continue
            ops = st["rv"]["ops"]
            fields = st["rv"]["adt"].get("fields") or []
            trusted = None
            if "trusted" in fields:
                from mir import op_const
                trusted = op_const(ops[fields.index("trusted")])
            k = "hydro_lang|%s|ObserveNonDet" % fn_key(c, body)
            ctx.inst(RT, k, sample={"trusted": str(trusted)})
            fn = c.fns.get(root)
            if str(trusted) != "false" and (fn is None or fn["name"] not in TRUSTED_HELPERS):
                ctx.violation(RT, k + "|trusted-outside-helper", "a trusted (simulator-invisible) nondeterminism observation is built outside the reviewed private helpers", body.loc(bb))
    RS = ctx.rule("C32.sites", "every call of a re-typing helper either never strengthens a guarantee under the caller's where-clauses, or is a reviewed entry performing at most the reviewed strengthenings", floor=25)
    seen_reviewed = set()
    n_type_justified = 0
    for b, bb, t, i, origin in A.guard_sites(c) + _guardless_helper_calls(c):
        f = t["f"]
        if f["name"] not in TRUSTED_HELPERS:
            continue
        caller = fn_key(c, c.bodies[b.root]) if b.root in c.bodies else b.root
        if c.fns.get(b.root, {}).get("name") in TRUSTED_HELPERS:
            # helper implemented via another helper: covered at the outer call sites
            ctx.inst(RS, "hydro_lang|%s|%s" % (caller, f["name"]), nontrivial=False)
            continue
        site = "%s|%s" % (caller, f["name"])
        n, sigma = A.strengthenings(c, S, b, t)
        key = "hydro_lang|" + site
        ctx.inst(RS, key, sites=max(n, 1), sample={"strengthenings": sigma, "instantiations": n, "guard": origin, "at": b.loc(bb)})
        if f["name"] == "assert_has_consistency_of_trusted":
            if site not in CONSISTENCY_REVIEWED:
                ctx.violation(RS, key + "|unreviewed", "unreviewed trusted consistency assertion", b.loc(bb))
            seen_reviewed.add(site)
            continue
        if sigma is None:
            ctx.violation(RS, key + "|unanalysable", "cannot determine the collection types of this re-typing call (fail closed)", b.loc(bb))
            continue
        if not sigma:
            n_type_justified += 1
            continue
        shape = [s for s in sigma if s.startswith("shape ") or "; shape " in s]
        if f["name"].startswith("cast_at_most_one"):
            if site not in SHAPE_REVIEWED:
                ctx.violation(RS, key + "|unreviewed", "unreviewed cardinality assumption: %s" % sigma, b.loc(bb))
            seen_reviewed.add(site)
            continue
        if site not in REVIEWED:
            ctx.violation(RS, key + "|unreviewed", "unreviewed library-internal assumption: the call strengthens %s under instantiations the function admits" % sigma, b.loc(bb), {"strengthenings": sigma})
            continue
        seen_reviewed.add(site)
        allowed = REVIEWED[site][0]
        extra = [s for s in sigma if not set(p.strip() for p in s.split(";")) <= allowed]
        if extra:
            ctx.violation(RS, key + "|widened", "the reviewed assumption (%s) now covers more than was reviewed: %s (allowed: %s) — a where-clause that justified it was loosened" % (
                REVIEWED[site][1], extra, sorted(allowed)), b.loc(bb), {"strengthenings": sigma})
    for site in sorted(set(REVIEWED) | set(SHAPE_REVIEWED) | set(CONSISTENCY_REVIEWED)):
        if site not in seen_reviewed:
            ctx.violation(RS, "hydro_lang|%s|stale-review" % site, "reviewed-table entry matches no call site any more (code changed: re-review rules/p_C32.py)")
    ctx.extra["type_justified_sites"] = n_type_justified
    # ---- fabricated guards for public nondeterministic APIs
    RF = ctx.rule("C32.fresh", "library functions that fabricate a NonDet guard (instead of forwarding their caller's) are enumerated; the set of (function, callee) pairs is the reviewed one", floor=20)
    fresh = {}
    for b, bb, t, i, origin in A.guard_sites(c):
        if origin == "param":
            continue
        caller = fn_key(c, c.bodies[b.root]) if b.root in c.bodies else b.root
        fresh.setdefault((caller, t["f"]["name"]), []).append(b.loc(bb))
    for (caller, callee), locs in sorted(fresh.items()):
        k = "hydro_lang|%s|%s" % (caller, callee)
        ctx.inst(RF, k, sites=len(locs))
        if callee in TRUSTED_HELPERS:
            continue
        if (caller, callee) not in FRESH_REVIEWED:
            ctx.violation(RF, k + "|unreviewed-fresh-guard", "library code fabricates a NonDet guard for the public nondeterministic API `%s` — not in the reviewed set" % callee, locs[0])
    for (caller, callee) in sorted(FRESH_REVIEWED):
        if (caller, callee) not in fresh:
            ctx.violation(RF, "hydro_lang|%s|%s|stale-review" % (caller, callee), "reviewed fresh-guard entry matches no call site any more (re-review rules/p_C32.py)")

    if ctx.tier == "thorough":
        # independent cross-check of the solver by the real type checker: compile-fail witnesses with compiling twins
        import witness
        witness.check(ctx, "C32")


def _guardless_helper_calls(c):
    """calls of helpers that take no NonDet (cast_at_most_one_*)"""
    out = []
    for d, b in sorted(c.bodies.items()):
        if c.is_test_path(d):
            continue
        for bb, t in b.calls():
            f = t.get("f")
            if f and f["name"] in TRUSTED_HELPERS and not any((b.locals[a["mv"]] if isinstance(a.get("mv"), int) else b.locals[a["cp"]] if isinstance(a.get("cp"), int) else a.get("ty", "")).endswith("nondet::NonDet") for a in t["a"]):
                out.append((b, bb, t, -1, "none"))
    return out


# (function, public nondeterministic callee) pairs where library code supplies its own guard; reasons from the source's nondet! texts
FRESH_REVIEWED = {
    # aggregation entry points: the guard is justified by the closure's proof parameters, which C28.gate checks against the node they build
    ("Stream<T, L, B, O, R>::fold", "assume_retries"): "the combinator function is commutative and idempotent (Idemp: ValidIdempotenceFor<R>)",
    ("Stream<T, L, B, O, R>::reduce", "assume_retries"): "the combinator function is commutative and idempotent",
    ("Stream<T, L, B, O, R>::reduce", "assume_ordering"): "the combinator function is commutative and idempotent",
    ("KeyedStream<K, V, L, B, O, R>::fold", "assume_retries"): "the combinator function is idempotent",
    ("KeyedStream<K, V, L, B, O, R>::reduce", "assume_retries"): "the combinator function is idempotent",
    ("KeyedStream<K, V, L, B, O, R>::reduce", "assume_ordering"): "the combinator function is commutative",
    ("KeyedStream<K, V, L, B, O, R>::reduce_watermark", "assume_retries"): "the combinator function is idempotent",
    ("KeyedStream<K, V, L, B, O, R>::reduce_watermark", "assume_ordering"): "the combinator function is commutative",
    # snapshots / batches taken by library code
    ("KeyedSingleton<K, V, L, B>::into_singleton", "snapshot"): "eventually stabilizes",
    ("KeyedSingleton<K, V, L, B>::key_count", "snapshot"): "eventually stabilizes",
    ("KeyedSingleton<K, V, L, B>::threshold_greater_or_equal", "snapshot"): "threshold on monotone values: once crossed stays crossed",
    ("KeyedSingleton<K, V, L, B>::threshold_greater_or_equal", "batch"): "threshold on monotone values: once crossed stays crossed",
    ("KeyedSingleton<K, V, L, B>::threshold_greater_or_equal_uniform", "snapshot"): "threshold on monotone values: once crossed stays crossed",
    ("KeyedSingleton<K, V, L, B>::threshold_greater_or_equal_uniform", "batch"): "threshold on monotone values: once crossed stays crossed",
    ("Singleton<T, L, B>::threshold_greater_or_equal", "snapshot"): "threshold on a monotone value: once crossed stays crossed",
    ("Optional<T, L, B>::clone_into_tick", "snapshot"): "bounded top-level optional so deterministic",
    ("Singleton<T, L, B>::clone_into_tick", "snapshot"): "bounded top-level singleton so deterministic",
    ("Optional<T, L, B>::or", "snapshot"): "eventually stabilizes",
    ("Optional<T, L, B>::zip", "snapshot"): "eventually stabilizes",
    ("Singleton<T, L, B>::zip", "snapshot"): "eventually stabilizes",
    ("<KeyedSingleton<K, V, Atomic<L>, B> as BatchAtomic>::batched_atomic", "snapshot_atomic"): "internal (sliced! supplies the user's guard)",
    ("<Optional<T, Atomic<L>, Unbounded> as BatchAtomic>::batched_atomic", "snapshot_atomic"): "internal (sliced! supplies the user's guard)",
    ("<Singleton<T, Atomic<L>, B> as BatchAtomic>::batched_atomic", "snapshot_atomic"): "internal (sliced! supplies the user's guard)",
    ("<Stream<T, Atomic<L>, Unbounded, O, R> as BatchAtomic>::batched_atomic", "batch_atomic"): "internal (sliced! supplies the user's guard)",
    ("Stream<T, Cluster<L, C>, B, O, R>::broadcast", "source_cluster_membership_stream"): "dropped prefixes don't affect broadcast",
    ("Stream<T, Process<L>, B, O, R>::broadcast", "source_cluster_membership_stream"): "dropped prefixes don't affect broadcast",
    ("Stream<T, Cluster<L, C>, B, TotalOrder, ExactlyOnce>::round_robin", "source_cluster_membership_stream"): "dropped prefixes don't affect round robin",
    ("Stream<T, Process<L>, B, TotalOrder, ExactlyOnce>::round_robin", "source_cluster_membership_stream"): "dropped prefixes don't affect round robin",
    ("Tick<L>::spin_batch", "batch"): "spin produces a single value per tick, so each batch has the same size",
}
