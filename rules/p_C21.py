"""C21 — operators' per-tick results (partial: state-lifetime handling of every operator that takes a persistence argument)."""
import os
import re

import optable
import synfacts
from facts import REPO

LEVEL = "other"
OPS_DIR = "dfir_lang/src/graph/ops"
RESET_FORMS = [r"# (\w+) \. clear \( \)", r"# (\w+) \. drain \( \)", r"# (\w+) =", r":: clear \( & mut # (\w+) \)", r"\{ # (\w+) ="]


def run(ctx):
    ctx.explanation = ("Every operator whose table entry admits a persistence argument ('tick / 'static) is classified from its generator source (syn): (direct) its write_fn matches on the "
                       "Persistence value and, on the Persistence::Tick arm, emits end-of-tick code that re-initialises (assigns, clear()s or drain()s) a state identifier that the operator's "
                       "prologue template declares — and emits no such code on the Static / wildcard arm ('static state is never reset); (delegate) it obtains its whole OperatorWriteOutput from "
                       "another operator's write_fn, and if it takes that output apart it carries write_tick_end over; (restricted) it rejects every persistence but one with an error diagnostic. "
                       "An operator that fits none of these is reported. Together with C24.skeleton (tick-end code runs once per tick, after all subgraphs) this is the necessary condition for "
                       "''tick state is cleared at the end of every tick while 'static state is kept'.")
    ctx.undecided = "the values operators compute (join results, fold accumulators, ...) — needs execution against a reference interpreter"
    ops = optable.load_ops()
    byconst = {}
    for op in ops:
        byconst[op.const] = op
    R1 = ctx.rule("C21.classified", "every persistence-taking operator handles its persistence argument in one of the three recognised ways", floor=25)
    R2 = ctx.rule("C21.reset", "direct operators: the Persistence::Tick arm re-initialises a prologue-declared state identifier; the other arm emits no reset", floor=15)
    R3 = ctx.rule("C21.forward", "delegating operators take their tick-end code from the delegate and do not drop it", floor=5)
    filefacts = synfacts.scan_dir(OPS_DIR)
    n = 0
    for op in ops:
        r = op.rng("persistence_args")
        if not r or r[1] == 0:
            continue
        n += 1
        ff = filefacts[op.file]
        src = open(os.path.join(REPO, op.file)).read()
        key = "dfir_lang|op:" + op.name
        macros = ff["macros"]
        tick_tpls = [m for m in macros if m["macro"] in ("quote", "quote_spanned") and m["conds"] and re.search(r"=> (super :: )?Persistence :: Tick$", m["conds"][-1])]
        pm = [m for m in ff["matches"] if any(re.search(r"Persistence :: Tick$", a["pat"]) for a in m["arms"])]
        # inverse form: `match p { Persistence::Static => <nothing>, _ => <reset> }`
        inv = [m for m in ff["matches"] if any(re.search(r"Persistence :: Static$", a["pat"]) for a in m["arms"]) and any(a["pat"] == "_" for a in m["arms"])
               and not any(re.search(r"Persistence :: Tick$", a["pat"]) for a in m["arms"])]
        for im in inv:
            tick_tpls += [m for m in macros if m["macro"] in ("quote", "quote_spanned") and m["conds"] and m["conds"][-1] == "match %s => _" % im["scrutinee"]]
        pm += inv
        deleg = re.findall(r"\(\s*super::(\w+)::(\w+)\s*\.write_fn\s*\)", src)
        only_tick = bool(re.search(r"!\s*matches!\(\s*persistence\s*,\s*Persistence::Tick\s*\)", src)) and "Level::Error" in src
        only_static = bool(re.search(r"\[Persistence::Static\]\s*!=\s*persistence_args", src)) and "Level::Error" in src
        kind = "direct" if pm and tick_tpls else "delegate" if deleg else "restricted" if (only_tick or only_static) else None
        ctx.inst(R1, key, sample={"kind": kind, "file": op.file, "delegates_to": deleg, "tick_arm_templates": len(tick_tpls)})
        loc = "%s:%s" % (op.file, op.line)
        if kind is None:
            ctx.violation(R1, key + "|unclassified", "operator `%s` accepts a persistence argument but neither resets state on Persistence::Tick, nor delegates to another operator, nor rejects "
                          "the other persistence with an error" % op.name, loc)
            continue
        if kind == "direct":
            prologue_slots = set()
            for m in macros:
                if m["macro"] in ("quote", "quote_spanned"):
                    for x in re.findall(r"let (?:mut )?# (\w+)", m["text"]):
                        prologue_slots.add(x)
            resets = []
            for m in tick_tpls:
                slots = []
                for pat in RESET_FORMS:
                    slots += re.findall(pat, m["text"])
                resets.append((m, slots))
            good = [(m, [s_ for s_ in slots if s_ in prologue_slots]) for m, slots in resets]
            ctx.inst(R2, key, sites=len(tick_tpls), sample={"tick_arm_resets": [(m["text"][:80], sl) for m, sl in resets][:4], "prologue_slots": sorted(prologue_slots)[:12]})
            # two persistence arguments govern two different pieces of state: their resets must target different identifiers
            by_scrut = {}
            for m, sl in good:
                mm = re.match(r"match (.*) => ", m["conds"][-1])
                if mm and sl and not re.search(r"\. drain \( \)", m["text"]):
                    by_scrut.setdefault(mm.group(1), set()).update(sl)
            scr = sorted(by_scrut)
            for i_ in range(len(scr)):
                for j_ in range(i_ + 1, len(scr)):
                    if by_scrut[scr[i_]] == by_scrut[scr[j_]]:
                        ctx.violation(R2, key + "|same-slot-for-two-persistences", "the end-of-tick resets selected by `%s` and by `%s` both re-initialise %s: one piece of state is reset under the wrong "
                                      "persistence argument and the other is never reset" % (scr[i_], scr[j_], sorted(by_scrut[scr[i_]])), loc)
            indirect = [m for (m, slots) in resets if slots and not any(s_ in prologue_slots for s_ in slots)]
            if indirect and not any(sl for m, sl in good):
                # the reset goes through a helper's parameter (e.g. a local closure `|persistence, buf_ident|`): which state it reaches is decided
                # on generated code in the thorough tier (corpus pairs), not guessed here
                ctx.notes.append("%s: end-of-tick reset through a helper parameter (%s)" % (op.name, [sl for _m, sl in resets]))
                continue
            # placement coverage: a reset that only exists in the code emitted for one placement (under `if is_pull` / its else) leaves the state of the
            # other placement alive across ticks
            def _placement(m):
                pl = set()
                for c_ in m["conds"]:
                    c2 = c_.replace(" ", "")
                    if c2 in ("ifis_pull", "else-of!is_pull"):
                        pl.add("pull")
                    elif c2 in ("if!is_pull", "else-ofis_pull"):
                        pl.add("push")
                return pl
            covered = set()
            for m, sl in good:
                if sl:
                    plm = _placement(m)
                    covered |= plm if plm else {"pull", "push"}
            both = any(_placement(m) for m in macros if m["macro"] in ("quote", "quote_spanned"))
            if any(sl for m, sl in good) and both and covered != {"pull", "push"}:
                ctx.violation(R2, key + "|reset-on-one-placement-only", "`%s` emits code for both placements, but its Persistence::Tick reset only exists in the code emitted for the %s placement: "
                              "on the other side of a subgraph the 'tick state survives into the next tick" % (op.name, "/".join(sorted(covered))), loc)
            if not any(sl for m, sl in good):
                ctx.violation(R2, key + "|no-reset", "no template on a Persistence::Tick arm of `%s` re-initialises (assigns / clear()s / drain()s) a state identifier declared in the operator's "
                              "prologue: 'tick state would survive into the next tick" % op.name, loc)
            # every match on Persistence that feeds a *tick_end* binding: the non-Tick arm must be empty
            for l in ff["lets"]:
                if "tick_end" not in l["pat"] or "Persistence ::" not in l["init"]:
                    continue
                init = l["init"]
                # split arms textually: the text after `Persistence :: Static =>` or `_ =>`
                pats = r"(?:Persistence :: Static|_) => (.{0,80})" if "Persistence :: Tick =>" in init else r"(?:Persistence :: Static) => (.{0,80})"
                for other in re.findall(pats, init):
                    if re.match(r"\s*quote", other):
                        ctx.violation(R2, key + "|static-reset:" + l["pat"][:30], "`%s` emits end-of-tick code on the Static / wildcard persistence arm: 'static state would be reset every tick" % l["pat"], "%s:%s" % (op.file, l["line"]))
        elif kind == "delegate":
            tgt = deleg[0][1]
            ctx.inst(R3, key, sample={"target": tgt})
            if tgt not in byconst:
                ctx.violation(R3, key + "|unknown-target", "delegates to unknown operator constant %s" % tgt, loc)
            destructures = re.search(r"let\s+OperatorWriteOutput\s*\{([^}]*)\}", src)
            if destructures:
                if "write_tick_end" not in destructures.group(1) or ".." in destructures.group(1):
                    ctx.violation(R3, key + "|tick-end-not-taken", "the delegate's OperatorWriteOutput is taken apart without binding write_tick_end", loc)
                rebuild = re.findall(r"OperatorWriteOutput\s*\{([^}]*)\}", src)
                if not any("write_tick_end" in x and not re.search(r"write_tick_end\s*:\s*Default", x) for x in rebuild[1:]):
                    ctx.violation(R3, key + "|tick-end-dropped", "the rebuilt OperatorWriteOutput does not carry the delegate's write_tick_end: the delegate's 'tick state would never be reset", loc)
    ctx.extra["persistence_operators"] = n

    recycle_rule(ctx)
    if ctx.tier == "thorough":
        # translation validation on a corpus of dfir_syntax! programs compiled with this tree's dfir_lang (never run)
        import corpus
        corpus.rules_c21(ctx)


def recycle_rule(ctx):
    """Double-buffered operator state: when a template swaps two state buffers declared in the operator's prologue (the finished tally becomes `prev`, the old `prev`
    buffer is reused), the reused buffer still holds the tally of two ticks ago and must be emptied in the same block. Without it the operator's per-tick result
    depends on data older than the previous tick."""
    import re
    import synfacts
    R = ctx.rule("C21.recycle", "an operator template that swaps two of its state buffers empties (clear() / re-initialises) the recycled one in the same block", floor=1)
    d = synfacts.scan_dir(OPS_DIR)
    n = 0
    for f, v in sorted(d.items()):
        for m in v["macros"]:
            if m["macro"] not in ("quote", "quote_spanned"):
                continue
            t = m["text"]
            if not re.search(r"(mem :: swap|RefCell :: swap|\. swap) \(", t):
                continue
            n += 1
            key = "dfir_lang|%s|swap#%d" % (f.split("/")[-1], n)
            cleared = re.findall(r"(\w+) \. clear \( \)", t) + re.findall(r"\* (\w+) = (?:Default|:: std :: default)", t)
            ctx.inst(R, key, sample={"line": m["line"], "cleared": cleared})
            if not cleared:
                ctx.violation(R, key + "|recycled-not-cleared", "two state buffers are swapped but neither is emptied afterwards: the buffer reused for this tick still holds the contents of two ticks "
                              "ago", "%s:%s" % (f, m["line"]))
    if n == 0:
        ctx.anchor_missing(R, "a swapping operator template (multiset_delta)")
