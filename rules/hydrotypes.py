"""Type-level facts of hydro_lang's API: a parser for the driver's type strings, a finite-domain
solver for the marker traits (Ordering / Retries / Boundedness / proof markers) built from the
crate's own impl table, and the enumeration of all ground instantiations of an API function's
marker parameters that its where-clauses admit.

Everything is derived from type-checked facts (impl headers, predicates, associated types); the
only knowledge baked in here is which struct is which collection kind and the position of its
bound / order / retry parameters.
"""
import itertools
import re

# ----------------------------------------------------------------------------- type strings

TOK = re.compile(r"\s*(::|->|[<>,()&\[\];+=*!]|'[A-Za-z_][A-Za-z0-9_]*|[A-Za-z_#{}][A-Za-z0-9_#{}]*|\d+|.)")


class ParseError(Exception):
    pass


def tokenize(s):
    out = []
    pos = 0
    while pos < len(s):
        m = TOK.match(s, pos)
        if not m:
            break
        out.append(m.group(1))
        pos = m.end()
    return out


class P:
    def __init__(self, toks):
        self.t = toks
        self.i = 0

    def peek(self, k=0):
        return self.t[self.i + k] if self.i + k < len(self.t) else None

    def eat(self, x=None):
        tok = self.peek()
        if tok is None or (x is not None and tok != x):
            raise ParseError("expected %r got %r at %d in %s" % (x, tok, self.i, " ".join(self.t)))
        self.i += 1
        return tok

    def ty(self):
        tok = self.peek()
        if tok == "&":
            self.eat()
            if self.peek() and self.peek().startswith("'"):
                self.eat()
            m = False
            if self.peek() == "mut":
                self.eat()
                m = True
            return ("ref", m, self.ty())
        if tok == "*":
            self.eat()
            self.eat()  # const / mut
            return ("ptr", self.ty())
        if tok == "(":
            self.eat()
            items = []
            while self.peek() != ")":
                items.append(self.ty())
                if self.peek() == ",":
                    self.eat()
            self.eat(")")
            return ("tuple", tuple(items))
        if tok == "[":
            self.eat()
            inner = self.ty()
            if self.peek() == ";":
                self.eat()
                self.eat()
            self.eat("]")
            return ("slice", inner)
        if tok == "<":
            # qualified projection <T as Trait<..>>::Name<..>
            self.eat()
            selfty = self.ty()
            self.eat("as")
            tr = self.path()
            self.eat(">")
            self.eat("::")
            name = self.eat()
            args = self.generic_args()
            node = ("proj", selfty, tr, name, args)
            while self.peek() == "::":   # further segments: treat as opaque projection chain
                self.eat()
                nm = self.eat()
                node = ("proj", node, ("path", "?", ()), nm, self.generic_args())
            return node
        if tok in ("impl", "dyn"):
            self.eat()
            bounds = [self.bound()]
            while self.peek() == "+":
                self.eat()
                bounds.append(self.bound())
            return (tok, tuple(bounds))
        if tok == "!":
            self.eat()
            return ("path", "!", ())
        if tok is not None and tok.startswith("'"):
            self.eat()
            return ("lt", tok)
        return self.path()

    def bound(self):
        if self.peek() and self.peek().startswith("'"):
            return ("lt", self.eat())
        if self.peek() == "?":
            self.eat()
        return self.path()

    def generic_args(self):
        args = []
        if self.peek() == "<":
            self.eat()
            while self.peek() != ">":
                # associated type binding Name = Ty
                if self.peek(1) == "=" and self.peek(2) != "=":
                    nm = self.eat()
                    self.eat("=")
                    args.append(("bind", nm, self.ty()))
                else:
                    args.append(self.ty())
                if self.peek() == ",":
                    self.eat()
            self.eat(">")
        return tuple(args)

    def path(self):
        segs = []
        args = ()
        while True:
            tok = self.eat()
            if not re.match(r"^[A-Za-z_#{}0-9]", tok):
                raise ParseError("bad path token %r in %s" % (tok, " ".join(self.t)))
            segs.append(tok)
            if self.peek() == "<":
                args = self.generic_args()
            if self.peek() == "(" and segs[-1] in ("Fn", "FnMut", "FnOnce", "fn"):
                a = self.ty()
                ret = None
                if self.peek() == "->":
                    self.eat()
                    ret = self.ty()
                args = (a, ret)
            if self.peek() == "::":
                self.eat()
                if self.peek() == "<":     # turbofish-like `::<..>`
                    args = self.generic_args()
                    if self.peek() == "::":
                        self.eat()
                        continue
                    break
                continue
            break
        return ("path", "::".join(segs), args)


_parse_cache = {}


def parse(s):
    """type string -> node; unparsable strings become ('other', s) (never raise)"""
    if s in _parse_cache:
        return _parse_cache[s]
    try:
        p = P(tokenize(s))
        n = p.ty()
        if p.peek() is not None:
            n = ("other", s)
    except (ParseError, IndexError, TypeError):
        n = ("other", s)
    _parse_cache[s] = n
    return n


def last(name):
    return name.split("::")[-1]


def show(n):
    k = n[0]
    if k == "path":
        a = n[2]
        return last(n[1]) + ("<%s>" % ", ".join(show(x) for x in a if x is not None) if a else "")
    if k == "proj":
        return "<%s as %s>::%s%s" % (show(n[1]), show(n[2]), n[3], ("<%s>" % ", ".join(show(x) for x in n[4]) if n[4] else ""))
    if k == "tuple":
        return "(%s)" % ", ".join(show(x) for x in n[1])
    if k == "ref":
        return "&" + ("mut " if n[1] else "") + show(n[2])
    if k in ("impl", "dyn"):
        return k + " " + " + ".join(show(x) for x in n[1])
    if k == "bind":
        return "%s = %s" % (n[1], show(n[2]))
    if k == "lt":
        return n[1]
    if k == "other":
        return n[1]
    return str(n)


def subst(n, b):
    """substitute type parameters (paths without '::' and without args that are keys of b)"""
    k = n[0]
    if k == "path":
        if not n[2] and n[1] in b:
            return b[n[1]]
        return ("path", n[1], tuple(subst(x, b) if x is not None else None for x in n[2]))
    if k == "proj":
        return ("proj", subst(n[1], b), subst(n[2], b), n[3], tuple(subst(x, b) for x in n[4]))
    if k == "tuple":
        return ("tuple", tuple(subst(x, b) for x in n[1]))
    if k == "ref":
        return ("ref", n[1], subst(n[2], b))
    if k in ("ptr", "slice"):
        return (k, subst(n[1], b))
    if k in ("impl", "dyn"):
        return (k, tuple(subst(x, b) for x in n[1]))
    if k == "bind":
        return ("bind", n[1], subst(n[2], b))
    return n


def params_in(n, generics, out=None):
    if out is None:
        out = set()
    k = n[0]
    if k == "path":
        if not n[2] and n[1] in generics:
            out.add(n[1])
        for x in n[2]:
            if x is not None:
                params_in(x, generics, out)
    elif k == "proj":
        params_in(n[1], generics, out)
        params_in(n[2], generics, out)
        for x in n[4]:
            params_in(x, generics, out)
    elif k == "tuple" or k in ("impl", "dyn"):
        for x in n[1]:
            params_in(x, generics, out)
    elif k == "ref":
        params_in(n[2], generics, out)
    elif k in ("ptr", "slice"):
        params_in(n[1], generics, out)
    elif k == "bind":
        params_in(n[2], generics, out)
    return out


def is_ground_marker(n):
    return n[0] == "path" and not n[2] and "::" in n[1] or (n[0] == "path" and not n[2] and n[1] in ("true", "false"))


def canon(n):
    """canonical comparable form: last path segments only"""
    k = n[0]
    if k == "path":
        return ("path", last(n[1]), tuple(canon(x) for x in n[2] if x is not None))
    if k == "proj":
        return ("proj", canon(n[1]), canon(n[2]), n[3], tuple(canon(x) for x in n[4]))
    if k == "tuple" or k in ("impl", "dyn"):
        return (k, tuple(canon(x) for x in n[1]))
    if k == "ref":
        return ("ref", n[1], canon(n[2]))
    if k in ("ptr", "slice"):
        return (k, canon(n[1]))
    if k == "bind":
        return ("bind", n[1], canon(n[2]))
    return n


def _has_proj(n):
    k = n[0]
    if k == "proj":
        return True
    if k == "path":
        return any(_has_proj(x) for x in n[2] if x is not None)
    if k in ("tuple", "impl", "dyn"):
        return any(_has_proj(x) for x in n[1])
    if k == "ref":
        return _has_proj(n[2])
    if k in ("ptr", "slice"):
        return _has_proj(n[1])
    if k == "bind":
        return _has_proj(n[2])
    return False


# ----------------------------------------------------------------------------- solver

IGNORED_TRAITS = {"Sized", "MetaSized", "PointeeSized", "Clone", "Copy", "Eq", "Hash", "Ord", "PartialEq", "PartialOrd", "Debug", "Send", "Sync", "Unpin",
                  "Serialize", "DeserializeOwned", "Default", "Future", "Stream", "Iterator", "IntoIterator", "Fn", "FnMut", "FnOnce", "Display"}


class Solver:
    """decides marker-trait obligations over ground marker types from the crate's impl table"""

    def __init__(self, crate):
        self.crate = crate
        self.by_trait = {}
        for d, i in sorted(crate.impls.items()):
            t = i.get("trait")
            if not t or i.get("negative"):
                continue
            self.by_trait.setdefault(last(t), []).append(i)
        self.super = {}
        for d, t in crate.traits.items():
            sup = []
            for p in t["preds"]:
                if p["k"] == "trait" and p["self"] == "Self" and last(p["trait"]) != last(d):
                    sup.append(last(p["trait"]))
            self.super[last(d)] = sup
        self.unevaluated = 0

    # --- domains
    def ground_selfs(self, trait):
        """ground (parameter-free, unit-like) self types of the impls of `trait`; None if some impl is blanket over Self"""
        out = []
        blanket = False
        for i in self.by_trait.get(trait, []):
            n = parse(i["self"])
            if n[0] == "path" and not n[2] and n[1] not in i["generics"]:
                out.append(n)
            elif n[0] == "path" and n[1] in i["generics"]:
                blanket = True
        return out, blanket

    def domain_of(self, param, bounds):
        """bounds: list of trait last-names bounding the parameter; returns list of ground nodes or None (opaque)"""
        dom = None
        seen = set()
        work = list(bounds)
        while work:
            tr = work.pop()
            if tr in seen:
                continue
            seen.add(tr)
            work.extend(self.super.get(tr, []))
            if tr in IGNORED_TRAITS or tr not in self.by_trait:
                continue
            gs, blanket = self.ground_selfs(tr)
            if blanket or not gs:
                continue
            cs = {canon(g): g for g in gs}
            if dom is None:
                dom = cs
            else:
                dom = {k: v for k, v in dom.items() if k in cs}
        if dom is None:
            return None
        return [dom[k] for k in sorted(dom)]

    # --- unification of an impl header against ground arguments
    def unify(self, pat, ground, b, generics):
        if pat[0] == "path" and not pat[2] and pat[1] in generics:
            if pat[1] in b:
                return canon(b[pat[1]]) == canon(ground)
            b[pat[1]] = ground
            return True
        if pat[0] != ground[0]:
            return False
        if pat[0] == "path":
            if last(pat[1]) != last(ground[1]) or len(pat[2]) != len(ground[2]):
                return False
            return all(self.unify(x, y, b, generics) for x, y in zip(pat[2], ground[2]) if x is not None and y is not None)
        if pat[0] == "tuple":
            return len(pat[1]) == len(ground[1]) and all(self.unify(x, y, b, generics) for x, y in zip(pat[1], ground[1]))
        if pat[0] == "ref":
            return pat[1] == ground[1] and self.unify(pat[2], ground[2], b, generics)
        return canon(pat) == canon(ground)

    def find_impls(self, trait, args):
        """impls of `trait` whose header unifies with args (list of nodes, args[0] = Self); yields (impl, binding)"""
        for i in self.by_trait.get(trait, []):
            pats = [parse(x) for x in i.get("trait_args", [])]
            if len(pats) != len(args):
                continue
            b = {}
            simple = [(p, a) for p, a in zip(pats, args) if not _has_proj(p)]
            projs = [(p, a) for p, a in zip(pats, args) if _has_proj(p)]
            if not all(self.unify(p, a, b, i["generics"]) for p, a in simple):
                continue
            ok = True
            for p, a in projs:
                # an associated-type projection in an impl header: evaluate it under the binding found so far
                pn = self.normalize(subst(p, b))
                if _has_proj(pn) or params_in(pn, set(i["generics"])):
                    ok = False   # cannot decide: do not claim the impl applies
                    break
                if canon(pn) != canon(a):
                    ok = False
                    break
            if ok:
                yield i, b

    def holds(self, trait, args, depth=0):
        """True / False / None (cannot evaluate: non-marker trait or non-ground arguments)"""
        if trait in IGNORED_TRAITS or trait not in self.by_trait:
            return None
        if depth > 8:
            return None
        unknown = False
        for i, b in self.find_impls(trait, args):
            ok = True
            for p in i["preds"]:
                r = self.pred_holds(p, b, i["generics"], depth + 1)
                if r is False:
                    ok = False
                    break
                if r is None:
                    pass
            if ok:
                return True
        # no impl matched.  If an argument is still a type parameter the answer is unknown.
        for a in args:
            if a[0] != "path" or (a[0] == "path" and "::" not in a[1] and a[1] not in ("true", "false", "()")):
                unknown = True
        return None if unknown else False

    def pred_holds(self, p, b, generics, depth=0):
        if p["k"] == "trait":
            tr = last(p["trait"])
            if tr in IGNORED_TRAITS or tr not in self.by_trait:
                return None
            args = [self.normalize(subst(parse(a), b)) for a in p["args"]]
            if any(params_in(a, set(generics)) for a in args):
                self.unevaluated += 1
                return None
            return self.holds(tr, args, depth)
        if p["k"] == "proj":
            m = re.match(r"^(.*) == (.*)$", p["s"])
            if not m:
                return None
            lhs = self.normalize(subst(parse(m.group(1)), b))
            rhs = self.normalize(subst(parse(m.group(2)), b))
            if lhs[0] == "proj" or rhs[0] == "proj" or lhs[0] == "other" or rhs[0] == "other":
                return None
            if params_in(lhs, set(generics)) or params_in(rhs, set(generics)):
                return None
            return canon(lhs) == canon(rhs)
        return None

    def normalize(self, n, depth=0):
        """evaluate associated-type projections whose self type is ground, using the impl table"""
        if depth > 10:
            return n
        k = n[0]
        if k == "proj":
            selfty = self.normalize(n[1], depth + 1)
            tr = n[2]
            targs = tuple(self.normalize(x, depth + 1) for x in tr[2])
            gargs = tuple(self.normalize(x, depth + 1) for x in n[4])
            trn = last(tr[1])
            for i, b in self.find_impls(trn, [selfty] + list(targs)):
                for it in i["items"]:
                    if it["name"] == n[3] and it.get("ty") is not None:
                        bb = dict(b)
                        for gname, gval in zip(it.get("generics", []), gargs):
                            bb[gname] = gval
                        return self.normalize(subst(parse(it["ty"]), bb), depth + 1)
            return ("proj", selfty, ("path", tr[1], targs), n[3], gargs)
        if k == "path":
            return ("path", n[1], tuple(self.normalize(x, depth + 1) if x is not None else None for x in n[2]))
        if k == "tuple":
            return ("tuple", tuple(self.normalize(x, depth + 1) for x in n[1]))
        if k == "ref":
            return ("ref", n[1], self.normalize(n[2], depth + 1))
        return n


# ----------------------------------------------------------------------------- API functions

# collection struct -> (kind, index of location, bound, order, retries type argument)
COLLECTIONS = {
    "Stream": ("stream", 1, 2, 3, 4),
    "KeyedStream": ("keyed_stream", 2, 3, 4, 5),
    "Singleton": ("singleton", 1, 2, None, None),
    "Optional": ("optional", 1, 2, None, None),
    "KeyedSingleton": ("keyed_singleton", 2, 3, None, None),
}


def collection_of(node):
    """('stream', loc, bound, order, retries) nodes if the type is one of the live collections, else None"""
    if node[0] == "ref":
        node = node[2]
    if node[0] != "path":
        return None
    nm = last(node[1])
    if nm not in COLLECTIONS or "live_collections" not in node[1]:
        return None
    kind, li, bi, oi, ri = COLLECTIONS[nm]
    a = node[2]
    if len(a) <= max(x for x in (li, bi, oi or 0, ri or 0)):
        return None
    return {"kind": kind, "loc": a[li], "B": a[bi], "O": a[oi] if oi is not None else None, "R": a[ri] if ri is not None else None, "node": node}


class ApiFn:
    """an API function with all marker parameters of its impl and itself, and their admitted ground assignments"""

    def __init__(self, crate, solver, fn):
        self.crate = crate
        self.s = solver
        self.fn = fn
        self.impl = crate.impls.get(fn.get("impl")) if fn.get("impl") else None
        self.generics = list(fn["generics"]) + (list(self.impl["generics"]) if self.impl else [])
        self.preds = list(fn["preds"]) + (list(self.impl["preds"]) if self.impl else [])
        self.inputs = [parse(x) for x in fn["inputs"]]
        self.output = parse(fn["output"])
        gset = set(self.generics)
        bounds = {}
        for p in self.preds:
            if p["k"] == "trait" and p["self"] in gset:
                bounds.setdefault(p["self"], []).append(last(p["trait"]))
        self.domains = {}
        for g in self.generics:
            d = solver.domain_of(g, bounds.get(g, []))
            if d is None:
                d = self._domain_from_arg_positions(g)
            if d is not None:
                self.domains[g] = d
        self._assign = None

    def _domain_from_arg_positions(self, g):
        """a parameter that is only used as an *argument* of marker-trait bounds (`B: ApplyMonotoneStream<M, B2>`): its possible
        values are the ground types found at that argument position in the trait's impl headers (only if every impl is ground there)"""
        dom = None
        for p in self.preds:
            if p["k"] != "trait":
                continue
            tr = last(p["trait"])
            if tr in IGNORED_TRAITS or tr not in self.s.by_trait:
                continue
            for k, a in enumerate(p["args"]):
                if k == 0 or a != g:
                    continue
                vals = {}
                allground = True
                for i in self.s.by_trait[tr]:
                    ta = i.get("trait_args", [])
                    if k >= len(ta):
                        allground = False
                        break
                    n = parse(ta[k])
                    if n[0] == "path" and not n[2] and n[1] not in i["generics"] and "::" in n[1]:
                        vals[canon(n)] = n
                    else:
                        allground = False
                        break
                if allground and vals:
                    dom = vals if dom is None else {kk: v for kk, v in dom.items() if kk in vals}
        if dom is None:
            return None
        return [dom[k] for k in sorted(dom)]

    def assignments(self):
        """all ground assignments of the marker parameters under which no where-clause is refuted"""
        if self._assign is not None:
            return self._assign
        names = sorted(self.domains)
        out = []
        gset = set(self.generics) - set(names)
        for combo in itertools.product(*[self.domains[n] for n in names]):
            b = dict(zip(names, combo))
            ok = True
            for p in self.preds:
                r = self.s.pred_holds(p, b, gset)
                if r is False:
                    ok = False
                    break
            if ok:
                out.append(b)
        self._assign = out
        return out

    def norm(self, node, b):
        return self.s.normalize(subst(node, b))

    def has_input_named(self, suffix):
        return any(n[0] == "path" and n[1].endswith(suffix) for n in self.inputs)
