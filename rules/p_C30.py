"""C30 — tick-scoped collections behave like finite batches (partial: tick typing, tick state lifetime, deferral emission, tick cycles are deferred)."""
import guards
import hydroapi as A
import hydrotypes as H
import mir
from framework import fn_key
from mir import op_place, pl_local

LEVEL = "other"
EMIT = "hydro_lang::compile::ir::{impl#50}::emit_core"


def run(ctx):
    ctx.explanation = ("(1) Tick typing: for every HydroNode-constructing API function and every admitted instantiation, a collection located in a Tick is typed Bounded (a batch is finite), and the "
                       "half-join typing rule holds (JoinHalf keeps the streamed side's order only with a bounded build side; shared with C29). (2) Tick state does not leak: in emit_core every "
                       "'static (cross_tick_state_lifetime) choice is on the is_top_level()==true edge, so inputs inside a tick get tick_state_lifetime (shared rule with C28.lifetime, reported "
                       "here for the non-top-level direction). (3) Deferral: the DeferTick arm of emit_core emits exactly the `defer_tick_lazy` operator between its input and output identifiers "
                       "and nothing else emits a deferring operator; every DeferTick::defer_tick impl and every create_source_with_initial builds a HydroNode::DeferTick on all paths; Tick::cycle "
                       "passes its cycle source through defer_tick (cycle_with_initial through create_source_with_initial), so a tick cycle can never be closed within one tick.")
    ctx.undecided = "batch semantics of each operator inside a tick (fold/reduce/sort/... results); that deferred values arrive exactly one tick later at run time (C24 decides the runtime/generator side)"
    c = mir.load_crate("hydro_lang")
    S = H.Solver(c)
    RB = ctx.rule("C30.bounded", "a collection located in a Tick is typed Bounded under every admitted instantiation of every HydroNode-constructing API function", floor=20)
    for s in A.sites(c, S):
        n = 0
        bad = None
        for b, selfc, others, out in s.instantiations():
            if out is not None and out.in_tick:
                n += 1
                if out.B != "Bounded" and bad is None:
                    bad = (", ".join("%s=%s" % (k, H.show(x)) for k, x in sorted(b.items())), str(out))
        if not n:
            continue
        key = "hydro_lang|%s|%s" % (fn_key(c, c.bodies[s.root]) if s.root in c.bodies else s.root, s.variant)
        ctx.inst(RB, key, sites=n)
        if bad:
            ctx.violation(RB, key + "|unbounded-in-tick", "the output is located in a tick but typed %s under %s: tick-scoped collections are finite batches" % (bad[1], bad[0]), "%s:%s" % (s.fn["file"], s.fn["line"]))
    # ---- lifetime
    RL = ctx.rule("C30.lifetime", "emit_core: 'static state only on the is_top_level() true edge (tick-scoped inputs get the 'tick lifetime)", floor=10)
    RD = ctx.rule("C30.defer", "the DeferTick arm of emit_core emits `defer_tick_lazy`; no other deferring operator is emitted by emit_core", floor=1)
    for b in [b for d, b in sorted(c.bodies.items()) if b.root == EMIT]:
        G = None
        dcount = 0
        for bb, t in b.calls():
            f = t.get("f")
            if not f:
                continue
            if f["name"] == "cross_tick_state_lifetime":
                if G is None:
                    G = guards.Guards(b, {"is_top_level"})
                g = G.guards_of(bb)
                k = "hydro_lang|%s|cross_tick_state_lifetime@%d" % (fn_key(c, b), dcount)
                dcount += 1
                ctx.inst(RL, k, sample={"guards": sorted(map(str, g)), "at": b.loc(bb)})
                if ("is_top_level", True) not in g:
                    ctx.violation(RL, k + "|static-in-tick", "a 'static state lifetime can be chosen for an input that is not top-level: tick-scoped state would leak into later ticks", b.loc(bb))
            if f["name"] == "push_ident" and len(t["a"]) > 1:
                ident = (guards.const_of(b, t["a"][1]) or "").strip('"')
                if ident in ("defer_tick", "defer_tick_lazy", "defer_signal", "next_tick", "next_stratum"):
                    k = "hydro_lang|%s|ident:%s" % (fn_key(c, b), ident)
                    # which HydroNode arm? the innermost dominating discriminant edge over HydroNode
                    arm = _node_arm(b, bb)
                    ctx.inst(RD, k, sample={"arm": arm, "at": b.loc(bb)})
                    if ident != "defer_tick_lazy" or arm != "DeferTick":
                        ctx.violation(RD, k + "|wrong-deferral", "emit_core emits the operator `%s` in the %s arm (expected `defer_tick_lazy` in the DeferTick arm only)" % (ident, arm), b.loc(bb))
    if not any(k.endswith("ident:defer_tick_lazy") for k in ctx.rules[RD]["instances"]):
        ctx.anchor_missing(RD, "defer_tick_lazy emission in emit_core")
    # ---- DeferTick impls build the node
    RN = ctx.rule("C30.defernode", "every DeferTick::defer_tick impl and every create_source_with_initial builds a HydroNode::DeferTick on every path", floor=7)
    cons = A.node_constructions(c)
    for d, b in sorted(c.bodies.items()):
        fn = c.fns.get(d)
        if not fn or c.is_test_path(d) or b.kind == "Closure":
            continue
        if not ((fn["name"] == "defer_tick" and (fn.get("impl") and c.impls.get(fn["impl"], {}).get("trait", "").endswith("DeferTick"))) or fn["name"] == "create_source_with_initial"):
            continue
        k = "hydro_lang|" + fn_key(c, b)
        blocks = set(bb for v, body, bb, st in cons.get(d, []) if v == "DeferTick" and body is b)
        calls = set(bb for bb, t in b.calls() if t.get("f") and t["f"]["name"] == "defer_tick" and t["f"]["def"] != d)
        ctx.inst(RN, k, sites=len(blocks) + len(calls))
        ok, _ = b.all_paths_pass(blocks | calls, set(b.returns()))
        if not (blocks or calls) or not ok:
            ctx.violation(RN, k + "|no-defer-node", "a path through %s returns without building HydroNode::DeferTick (or delegating to defer_tick): the value would be visible in the same tick" % fn["name"], b.loc())
    # ---- Tick::cycle
    RC = ctx.rule("C30.cycle", "Tick::cycle returns a source that passed through defer_tick; cycle_with_initial uses create_source_with_initial", floor=2)
    for d, b in sorted(c.bodies.items()):
        fn = c.fns.get(d)
        if not fn or "location::tick" not in d or fn["name"] not in ("cycle", "cycle_with_initial") or b.kind == "Closure":
            continue
        k = "hydro_lang|" + fn_key(c, b)
        srcs = [(bb, t) for bb, t in b.calls() if t.get("f") and t["f"]["name"] in ("create_source", "create_source_with_initial")]
        defers = [(bb, t) for bb, t in b.calls() if t.get("f") and t["f"]["name"] == "defer_tick"]
        ctx.inst(RC, k, sites=len(srcs), sample={"sources": [t["f"]["name"] for _bb, t in srcs], "defer_calls": len(defers)})
        if not srcs:
            ctx.violation(RC, k + "|no-source", "no cycle source is created", b.loc())
        for bb, t in srcs:
            if t["f"]["name"] == "create_source_with_initial":
                continue
            # the created source must be the receiver of a defer_tick call on every path to return
            dst = t.get("dst")
            ok = False
            for db, dt in defers:
                p = op_place(dt["a"][0]) if dt["a"] else None
                if p is not None and _copy_of(b, pl_local(p), dst) and b.all_paths_pass({db}, set(b.returns()), start=bb)[0]:
                    ok = True
            if not ok:
                ctx.violation(RC, k + "|undeferred-cycle", "the cycle source created by create_source is returned without passing through defer_tick: a tick cycle could be closed within the same tick",
                              b.loc(bb))

    # ---- the initial value of a tick cycle is visible in the first tick only
    RI = ctx.rule("C30.initial", "create_source_with_initial: the initial value is merged only behind a first-tick gate (filter_if(optional_first_tick)), or as the fallback of an always-present singleton", floor=3)
    for d, b in sorted(c.bodies.items()):
        fn = c.fns.get(d)
        if not fn or c.is_test_path(d) or b.kind == "Closure" or fn["name"] != "create_source_with_initial":
            continue
        imp = c.impls.get(fn.get("impl") or "", {})
        k = "hydro_lang|" + fn_key(c, b)
        init_local = 2
        uses = []
        for bb, t in b.calls():
            for i, a in enumerate(t.get("a", [])):
                p = op_place(a)
                if p is not None and isinstance(p, int) and _copy_of(b, p, init_local):
                    uses.append((bb, t, i))
        ctx.inst(RI, k, sites=len(uses), sample={"initial_flows_into": [(t.get("f") or {}).get("name") for _bb, t, _i in uses], "self": imp.get("self", "")[:80]})
        if not uses:
            ctx.violation(RI, k + "|initial-unused", "the initial value is never used", b.loc())
        for bb, t, i in uses:
            nm = (t.get("f") or {}).get("name")
            if nm == "filter_if" and i == 0 and len(t["a"]) >= 2 and _derives_from_call(b, t["a"][1], "optional_first_tick"):
                continue
            if nm == "unwrap_or" and i == 1 and "singleton::Singleton<" in imp.get("self", ""):
                continue      # a singleton always has a previous value after the first tick: the initial value is only ever the first tick's fallback
            ctx.violation(RI, k + "|initial-not-gated|" + str(nm), "the initial value of the tick cycle flows into `%s` without the first-tick gate: whenever the previous tick left nothing, the initial "
                          "value reappears in a later tick" % nm, b.loc(bb))

    if ctx.tier == "thorough":
        # independent cross-check of the solver by the real type checker: compile-fail witnesses with compiling twins
        import witness
        witness.check(ctx, "C30")


def _copy_of(b, local, target, depth=0):
    if local == target:
        return True
    if depth > 5 or target is None:
        return False
    for bb, idx, rv in b.defs_of(local):
        if idx != "term" and rv["k"] == "use":
            p = op_place(rv["ops"][0])
            if isinstance(p, int) and _copy_of(b, p, target, depth + 1):
                return True
    return False


def _node_arm(b, bb):
    """variant name of the innermost `match` over HydroNode whose arm dominates bb"""
    best = None
    for sb in range(b.n):
        ts = b.term(sb)
        if ts["k"] != "switch" or b.is_cleanup(sb):
            continue
        dp = op_place(ts["d"])
        if not isinstance(dp, int):
            continue
        for db, idx, rv in b.defs_of(dp):
            if idx == "term" or rv["k"] != "discr":
                continue
            if "HydroNode" not in b.locals[pl_local(rv["p"])]:
                continue
            variants = {v: n for v, n in (rv.get("variants") or [])}
            if "DeferTick" not in variants.values():
                continue
            for val, tgt in ts["ts"]:
                if b.dominates(tgt, bb) and len(b.preds(tgt)) == 1:
                    if best is None or b.dominates(best[1], tgt):
                        best = (variants.get(val), tgt)
    return best[0] if best else None


def _derives_from_call(b, op, name, depth=0):
    p = op_place(op)
    if p is None or depth > 8:
        return False
    for bb, idx, rv in b.defs_of(pl_local(p)):
        if idx == "term":
            f = rv.get("f") or {}
            if f.get("name") == name:
                return True
            if any(_derives_from_call(b, a, name, depth + 1) for a in rv.get("a", [])[:2]):
                return True
        elif rv["k"] in ("use", "cast"):
            if _derives_from_call(b, rv["ops"][0], name, depth + 1):
                return True
        elif rv["k"] in ("ref", "refmut"):
            if _derives_from_call(b, {"cp": rv["p"]}, name, depth + 1):
                return True
    return False
