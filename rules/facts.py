"""Fact extraction manager (E1): runs the mirfacts driver over /repo under cargo +nightly check,
keeps facts in step with /repo's working tree, fails closed."""
import fcntl
import glob
import hashlib
import json
import os
import shutil
import subprocess
import sys
import time

VERIF = os.path.dirname(os.path.dirname(os.path.abspath(__file__)))
REPO = os.environ.get("VERIF_REPO", "/repo")
WORK = os.environ.get("VERIF_WORK", os.path.join(VERIF, ".work"))
FACTS = os.path.join(WORK, "facts")
TGT = os.path.join(WORK, "tgt-nightly")
DRIVER = os.path.join(VERIF, "engine", "mirfacts", "target", "release", "mirfacts")

# crate name -> package dir (relative to REPO)
CRATES = {
    "lattices": "lattices",
    "variadics": "variadics",
    "dfir_pipes": "dfir_pipes",
    "sinktools": "sinktools",
    "dfir_lang": "dfir_lang",
    "dfir_rs": "dfir_rs",
    "hydro_deploy_integration": "hydro_deploy/hydro_deploy_integration",
    "hydro_lang": "hydro_lang",
    "hydro_std": "hydro_std",
}
FEATURES = "hydro_lang/sim,hydro_lang/deploy,hydro_lang/viz"


class InfraError(Exception):
    pass


def _sysroot():
    return subprocess.check_output(["rustc", "+nightly", "--print", "sysroot"], text=True, cwd=VERIF).strip()


def _env():
    env = dict(os.environ)
    env["CARGO_NET_OFFLINE"] = "true"
    env["LD_LIBRARY_PATH"] = _sysroot() + "/lib:" + env.get("LD_LIBRARY_PATH", "")
    env["RUSTFLAGS"] = "-Zmir-opt-level=0 -Awarnings"
    env["RUSTC_WORKSPACE_WRAPPER"] = DRIVER
    env["MIRFACTS_OUT"] = FACTS
    env["MIRFACTS_CRATES"] = ",".join(CRATES)
    env["CARGO_TARGET_DIR"] = TGT
    # incremental caches would let rustc skip the mir_built provider the driver hooks
    env["CARGO_INCREMENTAL"] = "0"
    env.pop("RUSTC_WRAPPER", None)
    return env


def ensure_driver():
    if not os.path.exists(DRIVER):
        r = subprocess.run(["cargo", "build", "--release", "--offline"], cwd=os.path.join(VERIF, "engine", "mirfacts"),
                           env=dict(os.environ, CARGO_NET_OFFLINE="true"), capture_output=True, text=True)
        if r.returncode != 0 or not os.path.exists(DRIVER):
            raise InfraError("cannot build mirfacts driver:\n" + r.stderr[-3000:])


def _driver_hash():
    h = hashlib.sha256()
    with open(DRIVER, "rb") as f:
        h.update(f.read())
    return h.hexdigest()[:16]


def _wipe_fingerprints(crates):
    fp = os.path.join(TGT, "debug", ".fingerprint")
    for c in crates:
        pkg = c.replace("_", "?")  # package names may use '-' or '_'
        for d in glob.glob(os.path.join(fp, pkg + "-*")):
            shutil.rmtree(d, ignore_errors=True)


def _cargo_check():
    cmd = ["cargo", "+nightly", "check", "--offline", "--message-format=json"]
    for c, d in CRATES.items():
        cmd += ["-p", _pkg_name(d)]
    cmd += ["--features", FEATURES]
    r = subprocess.run(cmd, cwd=REPO, env=_env(), capture_output=True, text=True)
    tags = {}
    for line in r.stdout.splitlines():
        if not line.startswith("{"):
            continue
        try:
            m = json.loads(line)
        except ValueError:
            continue
        if m.get("reason") != "compiler-artifact":
            continue
        tname = m["target"]["name"].replace("-", "_")
        if tname not in CRATES or "lib" not in m["target"]["kind"] and "rlib" not in m["target"]["kind"]:
            continue
        for fn in m.get("filenames", []):
            base = os.path.basename(fn)
            if base.startswith("lib" + tname + "-") and base.endswith(".rmeta"):
                extra = base[len("lib" + tname):-len(".rmeta")]
                tags.setdefault(tname, set()).add(tname + extra)
    return r, tags


_pkg_cache = {}


def _pkg_name(rel):
    if rel in _pkg_cache:
        return _pkg_cache[rel]
    name = None
    with open(os.path.join(REPO, rel, "Cargo.toml")) as f:
        in_pkg = False
        for line in f:
            s = line.strip()
            if s.startswith("["):
                in_pkg = s == "[package]"
            elif in_pkg and s.startswith("name"):
                name = s.split("=", 1)[1].strip().strip('"')
                break
    _pkg_cache[rel] = name or os.path.basename(rel)
    return _pkg_cache[rel]


def ensure_facts(verbose=False):
    """Bring facts up to date with /repo's working tree. Returns dict crate -> [fact files]."""
    os.makedirs(FACTS, exist_ok=True)
    os.makedirs(TGT, exist_ok=True)
    lock = open(os.path.join(WORK, "facts.lock"), "w")
    fcntl.flock(lock, fcntl.LOCK_EX)
    try:
        ensure_driver()
        stamp = os.path.join(FACTS, "DRIVER_HASH")
        dh = _driver_hash()
        old = open(stamp).read().strip() if os.path.exists(stamp) else None
        if old != dh:
            # a different extractor produced the cached facts: start over
            for f in glob.glob(os.path.join(FACTS, "*.json")):
                os.remove(f)
            _wipe_fingerprints(list(CRATES))
            with open(stamp, "w") as f:
                f.write(dh)
        t0 = time.time()
        for attempt in range(3):
            r, tags = _cargo_check()
            if r.returncode != 0:
                raise InfraError("cargo +nightly check of /repo failed (exit %d):\n%s" % (r.returncode, _errors(r)))
            missing = []
            files = {}
            for c in CRATES:
                ts = tags.get(c, set())
                if not ts:
                    missing.append(c)
                    continue
                fl = []
                for t in sorted(ts):
                    p = os.path.join(FACTS, t + ".json")
                    if not os.path.exists(p):
                        missing.append(c)
                    else:
                        fl.append(p)
                files[c] = fl
            if not missing:
                # drop stale fact files of other configurations
                keep = set(p for fl in files.values() for p in fl)
                for f in glob.glob(os.path.join(FACTS, "*.json")):
                    if f not in keep:
                        os.remove(f)
                if verbose:
                    print("facts up to date (%.1fs, %d files)" % (time.time() - t0, len(keep)), file=sys.stderr)
                return files
            # cargo considered a unit fresh but its fact file is absent: force re-analysis
            _wipe_fingerprints(sorted(set(missing)))
        raise InfraError("fact files missing after re-analysis: %s" % sorted(set(missing)))
    finally:
        fcntl.flock(lock, fcntl.LOCK_UN)
        lock.close()


def _errors(r):
    out = []
    for line in r.stdout.splitlines():
        if line.startswith("{"):
            try:
                m = json.loads(line)
            except ValueError:
                continue
            if m.get("reason") == "compiler-message" and m["message"].get("level") == "error":
                out.append(m["message"].get("rendered", "")[:1500])
    return "\n".join(out[:5]) + "\n" + r.stderr[-2000:]


# ----------------------------------------------------------------------------- E4 corpus (generated code)

CORPUS_SRC = os.path.join(VERIF, "corpus", "src", "lib.rs")


def ensure_corpus_facts(verbose=False):
    """Compiles /verif/corpus (dfir_syntax! programs, never run) against the repository copy under analysis with the mirfacts driver and
    returns the fact file. The generated tick closures are coroutines and are dumped from `mir_built`."""
    ensure_driver()
    d = os.path.join(WORK, "corpus")
    os.makedirs(os.path.join(d, "src"), exist_ok=True)
    shutil.copy(CORPUS_SRC, os.path.join(d, "src", "lib.rs"))
    with open(os.path.join(d, "Cargo.toml"), "w") as f:
        f.write('[package]\nname = "verif_corpus"\nversion = "0.0.0"\nedition = "2024"\npublish = false\n\n[workspace]\n\n[dependencies]\n'
                'dfir_rs = { path = "%s/dfir_rs" }\n' % REPO)
    shutil.copy(os.path.join(REPO, "Cargo.lock"), os.path.join(d, "Cargo.lock"))
    out = os.path.join(WORK, "facts-corpus")
    os.makedirs(out, exist_ok=True)
    env = _env()
    env["MIRFACTS_OUT"] = out
    env["MIRFACTS_CRATES"] = "verif_corpus"
    env["CARGO_TARGET_DIR"] = os.path.join(WORK, "tgt-corpus")
    lock = open(os.path.join(WORK, "corpus.lock"), "w")
    fcntl.flock(lock, fcntl.LOCK_EX)
    try:
        for f in glob.glob(os.path.join(out, "verif_corpus-*.json")):
            os.remove(f)
        # force re-analysis of the corpus crate itself (its inputs include the proc-macro expansion by the repository's dfir_lang)
        fp = os.path.join(env["CARGO_TARGET_DIR"], "debug", ".fingerprint")
        for x in glob.glob(os.path.join(fp, "verif_corpus-*")):
            shutil.rmtree(x, ignore_errors=True)
        t0 = time.time()
        r = subprocess.run(["cargo", "+nightly", "check", "--offline", "--message-format=json"], cwd=d, env=env, capture_output=True, text=True)
        if r.returncode != 0:
            raise InfraError("the corpus does not compile against this tree (exit %d):\n%s" % (r.returncode, _errors(r)))
        files = sorted(glob.glob(os.path.join(out, "verif_corpus-*.json")))
        if not files:
            raise InfraError("no fact file for the corpus")
        if verbose:
            print("corpus facts (%.1fs)" % (time.time() - t0), file=sys.stderr)
        return files
    finally:
        fcntl.flock(lock, fcntl.LOCK_UN)
        lock.close()
