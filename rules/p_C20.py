"""C20 — rewrites and meta-graph serialisation (partial: no field is silently dropped by the JSON round trip)."""
import os

import mir
import synfacts
from facts import REPO
from framework import fn_key
from mir import pl_projs, pl_local, op_place, op_place
from util import calls_on_field

LEVEL = "other"
BENIGN_TYPES = {"Span", "Option < Span >", "proc_macro2 :: Span", "Option < proc_macro2 :: Span >"}


def reaches(crate, start_def, target_pred, depth=0, seen=None):
    if seen is None:
        seen = set()
    if start_def in seen or depth > 6:
        return False
    seen.add(start_def)
    b = crate.bodies.get(start_def)
    if b is None:
        return False
    if target_pred(b):
        return True
    for bb, t in b.calls():
        f = t.get("f")
        if f:
            d = f.get("res") or f["def"]
            if d in crate.bodies and reaches(crate, d, target_pred, depth + 1, seen):
                return True
    for cb in crate.closures_of(b.def_path):
        if cb.def_path not in seen and reaches(crate, cb.def_path, target_pred, depth + 1, seen):
            return True
    return False


def run(ctx):
    ctx.explanation = ("The runtime loads its meta graph from JSON. A field that serde skips comes back as Default and silently changes the graph unless the loader rebuilds it. "
                       "Decided: (syn) every #[serde(skip..)] field of every Serialize/Deserialize type of dfir_lang is either pure presentation data (a Span) or (MIR) is written by "
                       "a function that Dfir::new calls on its JSON path before the graph is stored; and on that path deserialisation is followed by the rebuild on every path.")
    ctx.undecided = "that union/tee removal and module merging preserve wiring; that serde's derive round-trips the non-skipped fields (trusted)"
    files = []
    for root, _, fs in os.walk(os.path.join(REPO, "dfir_lang/src")):
        for f in fs:
            if f.endswith(".rs"):
                files.append(os.path.relpath(os.path.join(root, f), REPO))
    d = synfacts.scan(sorted(files))
    dl = mir.load_crate("dfir_lang")
    rs = mir.load_crate("dfir_rs")
    R_S = ctx.rule("C20.serde", "every serde-skipped field of a serialised dfir_lang type is presentation-only (Span) or rebuilt by a function called on the load path of Dfir::new", floor=5)
    R_L = ctx.rule("C20.load", "Dfir::new: on the Some(json) path, deserialisation is followed by the operator-instance rebuild on every path before the graph is returned", floor=1)
    # load path closure
    loaders = [b for dd, b in rs.bodies.items() if "scheduled::context::" in dd and "::new::{closure#" in dd and any(t.get("f") and t["f"]["name"] == "from_str" and "DfirGraph" in " ".join(t["f"].get("args", [])) for _, t in b.calls())]
    if not loaders:
        ctx.anchor_missing(R_L, "Dfir::new closure deserialising DfirGraph (feature `meta`)")
    load_callees = set()
    for lb in loaders:
        key = "dfir_rs|" + fn_key(rs, lb)
        des = [bb for bb, t in lb.calls() if t.get("f") and t["f"]["name"] == "from_str"]
        rebuild = [bb for bb, t in lb.calls() if t.get("f") and (t["f"].get("res") or t["f"]["def"]).startswith("dfir_lang::") and t["f"]["name"] not in ("new", "is_empty", "new_debug")]
        for bb, t in lb.calls():
            if t.get("f"):
                load_callees.add(t["f"].get("res") or t["f"]["def"])
        ctx.inst(R_L, key, sites=len(des), sample={"function": lb.def_path, "from_str_blocks": des, "rebuild_call_blocks": rebuild})
        rets = set(lb.returns())
        for db in des:
            ok, _ = lb.all_paths_pass(set(rebuild), rets, start=db) if rebuild else (False, None)
            if not ok:
                ctx.violation(R_L, key + "|no-rebuild-after-load", "the deserialised graph can be returned without rebuilding its skipped state", lb.loc(db))
    n = 0
    for f, v in sorted(d.items()):
        for st in v["structs"]:
            if not any("Serialize" in a or "Deserialize" in a for a in st["attrs"]):
                continue
            fields = st.get("fields") or [dict(fl, variant=var["name"]) for var in st.get("variants", []) for fl in var["fields"]]
            for fl in fields:
                sk = [a for a in fl["attrs"] if "serde" in a and ("skip" in a)]
                if not sk:
                    continue
                n += 1
                key = "dfir_lang|%s.%s%s" % (st["name"], (fl.get("variant") + ".") if fl.get("variant") else "", fl["name"])
                benign = fl["ty"] in BENIGN_TYPES
                writers = []
                rebuilt = False
                if not benign:
                    for dd, b in sorted(dl.bodies.items()):
                        if calls_on_field(b, {"insert", "extend", "entry", "push"}, {fl["name"]}):
                            writers.append(dd)
                    for callee in load_callees:
                        if callee in dl.bodies and reaches(dl, callee, lambda b: b.def_path in writers):
                            rebuilt = True
                ctx.inst(R_S, key, sample={"field": key, "type": fl["ty"], "attr": sk[0], "presentation_only": benign, "writers": [w.split("::")[-1] for w in writers], "rebuilt_on_load_path": rebuilt})
                if not benign and not rebuilt:
                    ctx.violation(R_S, key + "|skipped-not-rebuilt", "field `%s` (%s) is skipped by serde and no function called by Dfir::new on its JSON path writes it: the loaded meta graph "
                                  "silently differs from the compiled one" % (key, fl["ty"]), "%s:%s" % (f, fl.get("line", st["line"])))
    if n < 5:
        ctx.anchor_missing(R_S, "serde-skipped fields (found %d)" % n)
    ports_rule(ctx, mir.load_crate("dfir_lang"))


def _field_path(p):
    return tuple(int(pr[1:].split(":")[0]) for pr in pl_projs(p) if pr.startswith(".") and pr[1:].split(":")[0].isdigit())


def _trace_port(b, local, depth=0):
    """(port tuple index, edge component path of the remove_intermediate_vertex result) for a port value taken out of `ports.remove(edge).unwrap()`"""
    if depth > 8 or not isinstance(local, int):
        return None
    for bb, idx, rv in b.defs_of(local):
        if idx == "term":
            continue
        if rv["k"] == "use":
            p = op_place(rv["ops"][0])
            if p is None:
                continue
            if isinstance(p, int):
                r = _trace_port(b, p, depth + 1)
                if r:
                    return r
                continue
            fp = _field_path(p)
            base = pl_local(p)
            if len(fp) == 1:
                # base = unwrap(remove(ports, edge))
                for db, didx, t in b.defs_of(base):
                    if didx == "term" and t["k"] == "call" and t.get("f") and t["f"]["name"] == "unwrap" and t["a"]:
                        q = op_place(t["a"][0])
                        for eb, eidx, t2 in b.defs_of(pl_local(q)) if q is not None else []:
                            if eidx == "term" and t2["k"] == "call" and t2.get("f") and t2["f"]["name"] == "remove" and len(t2["a"]) >= 2:
                                e = op_place(t2["a"][1])
                                return (fp[0], _trace_edge(b, pl_local(e)) if e is not None else None)
    return None


def _trace_edge(b, local, depth=0):
    if depth > 6 or not isinstance(local, int):
        return None
    for bb, idx, rv in b.defs_of(local):
        if idx != "term" and rv["k"] == "use":
            p = op_place(rv["ops"][0])
            if p is None:
                continue
            if isinstance(p, int):
                r = _trace_edge(b, p, depth + 1)
                if r:
                    return r
            else:
                base = pl_local(p)
                for db, didx, t in b.defs_of(base):
                    if didx == "term" and t["k"] == "call" and t.get("f") and t["f"]["name"] == "unwrap" and t["a"]:
                        q = op_place(t["a"][0])
                        for eb, eidx, t2 in b.defs_of(pl_local(q)) if q is not None else []:
                            if eidx == "term" and t2["k"] == "call" and t2.get("f") and t2["f"]["name"] == "remove_intermediate_vertex":
                                return _field_path(p)
    return None


def ports_rule(ctx, c):
    """removing a pass-through node reconnects predecessor and successor with the OUTER ports: (source port of the incoming edge, destination port of the outgoing edge)"""
    R = ctx.rule("C20.ports", "remove_intermediate_node keeps the predecessor edge's source port and the successor edge's destination port", floor=1)
    bs = [b for d, b in c.bodies.items() if d.endswith("::remove_intermediate_node") and "meta_graph" in d]
    if not bs:
        ctx.anchor_missing(R, "DfirGraph::remove_intermediate_node")
        return
    b = bs[0]
    key = "dfir_lang|DfirGraph::remove_intermediate_node"
    ins = [(bb, t) for bb, t in b.calls() if t.get("f") and t["f"]["name"] == "insert" and len(t["a"]) >= 3 and not b.is_cleanup(bb)]
    got = None
    for bb, t in ins:
        tup = op_place(t["a"][2])
        if not isinstance(tup, int):
            continue
        for db, idx, rv in b.defs_of(tup):
            if idx != "term" and rv["k"] == "agg" and rv["agg"] == "tuple" and len(rv["ops"]) == 2:
                got = [_trace_port(b, pl_local(op_place(o))) if op_place(o) is not None else None for o in rv["ops"]]
    ctx.inst(R, key, sample={"new_edge_ports": got, "expected": [[0, [1, 0]], [1, [1, 1]]]})
    # di_mul_graph::remove_intermediate_vertex returns (new_edge, (pred_edge, succ_edge)): component (1,0) is the incoming edge, (1,1) the outgoing one
    if got is None or None in got:
        ctx.violation(R, key + "|untraceable", "cannot trace the ports of the reconnecting edge to ports.remove(..) of the two removed edges (fail closed): %s" % (got,), b.loc())
    elif got != [(0, (1, 0)), (1, (1, 1))]:
        ctx.violation(R, key + "|wrong-ports", "the reconnecting edge gets ports %s (expected: source port = component 0 of the incoming edge's ports, destination port = component 1 of the outgoing "
                      "edge's ports): the removed node's inner (elided) ports are kept and the neighbours' explicit ports are lost, so inputs/outputs of the neighbour are permuted" % (got,), b.loc())
