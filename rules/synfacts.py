"""E2 runner: syntax facts (syn) for /repo source files, cached by content hash."""
import hashlib
import json
import os
import subprocess

from facts import VERIF, REPO, WORK, InfraError

BIN = os.path.join(VERIF, "engine", "synscan", "target", "release", "synscan")
_cache = {}


def ensure_bin():
    if not os.path.exists(BIN):
        r = subprocess.run(["cargo", "build", "--release", "--offline"], cwd=os.path.join(VERIF, "engine", "synscan"),
                           env=dict(os.environ, CARGO_NET_OFFLINE="true"), capture_output=True, text=True)
        if r.returncode != 0 or not os.path.exists(BIN):
            raise InfraError("cannot build synscan:\n" + r.stderr[-3000:])


def scan(rel_paths):
    """rel_paths: paths relative to /repo. returns dict rel_path -> facts"""
    ensure_bin()
    out = {}
    todo = []
    for rp in rel_paths:
        if rp in _cache:
            out[rp] = _cache[rp]
        else:
            todo.append(rp)
    if todo:
        abs_paths = [os.path.join(REPO, rp) for rp in todo]
        for p in abs_paths:
            if not os.path.exists(p):
                raise InfraError("source file missing: " + p)
        r = subprocess.run([BIN] + abs_paths, capture_output=True, text=True)
        if r.returncode != 0:
            raise InfraError("synscan failed: " + r.stderr[-2000:])
        d = json.loads(r.stdout)
        for rp, ap in zip(todo, abs_paths):
            _cache[rp] = d[ap]
            out[rp] = d[ap]
    return out


def scan_dir(rel_dir, suffix=".rs"):
    base = os.path.join(REPO, rel_dir)
    if not os.path.isdir(base):
        raise InfraError("source dir missing: " + base)
    files = sorted(os.path.join(rel_dir, f) for f in os.listdir(base) if f.endswith(suffix))
    return scan(files)
