"""Typestate engine for the push-side protocols (dfir_pipes::push::Push and futures_sink::Sink).

Per combinator impl it decides, on the generic MIR:
  ready    : every `start_send(f, ..)` on a downstream f is executed in state Ready(f), where Ready(f) is
             established only on the success edge of `poll_ready(f)` and consumed by a send / invalidated by
             unknown calls on f; no send after a finalize call on f was started
  readyret : summary of own poll_ready = set of downstreams Ready on every path that returns success
             (used as the entry state of own start_send)
  finalize : own finalize methods return success only after the same finalize succeeded on every downstream
  repoll   : a send inside a poll_* function lies on no state-mutation-free re-poll cycle
"""
import re

from mir import pl_local, pl_projs, pl_str, op_place, forward_dataflow

READY, NOTREADY = "R", "N"


PUSH_T = "dfir_pipes::push::Push"
PUSHVAR_T = "dfir_pipes::push::demux_var::PushVariadic"
SINK_T = "futures_sink::Sink"
SINKVAR_T = "sinktools::demux_var::SinkVariadic"

# downstream protocol traits: trait -> (kind, level of poll results, {method: role})
PROTO_TRAITS = {
    PUSH_T: ("push", "step", {"poll_ready": "ready", "start_send": "send", "poll_finalize": "fin:poll_finalize"}),
    PUSHVAR_T: ("push", "step", {"poll_ready": "ready", "start_send": "send", "poll_finalize": "fin:poll_finalize"}),
    SINK_T: ("sink", "poll", {"poll_ready": "ready", "start_send": "send", "poll_flush": "fin:poll_flush", "poll_close": "fin:poll_close"}),
    SINKVAR_T: ("sink", "poll", {"poll_ready": "ready", "start_send": "send", "poll_flush": "fin:poll_flush", "poll_close": "fin:poll_close"}),
}


class Spec:
    """roles of the *own* methods of the impl being analysed"""

    def __init__(self, kind):
        self.kind = kind
        self.ready = "poll_ready"
        self.send = "start_send"
        if kind == "push":
            self.fins = ("poll_finalize",)
        elif kind == "sink":
            self.fins = ("poll_flush", "poll_close")
        else:  # driver (Future::poll etc.)
            self.ready = None
            self.send = None
            self.fins = ()


def fin_satisfied(own_kind, own_fin, down_kind, fd, ident):
    """is the finalize obligation of own method own_fin towards downstream ident met by the set fd of (fin, ident)?"""
    have = set(n for n, i in fd if i == ident or (i.endswith(".*") and ident.startswith(i[:-1])))
    if own_kind == "push":
        return bool(have)
    if own_fin == "poll_flush":
        if down_kind == "push":
            return True   # Push has no non-terminal flush; start_send delivers synchronously
        return bool(have & {"poll_flush", "poll_close"})
    if own_fin == "poll_close":
        return bool(have & {"poll_close", "poll_finalize"})
    return bool(have)


SUCCESS = {("step", "Done"), ("result", "Ok"), ("cf", "Continue"), ("poll_ok", "Ready")}

PASS_NAMES = {"as_mut", "new", "get_mut", "project", "deref_mut", "deref", "borrow_mut", "as_deref_mut", "get_unchecked_mut",
              "new_unchecked", "into_ref", "as_ref", "borrow", "project_ref", "into_inner", "get_pin_mut", "as_pin_mut", "unwrap",
              "expect", "unwrap_unchecked", "as_deref", "by_ref", "map_unchecked_mut", "reborrow", "into"}


def is_passthrough(f):
    if f is None:
        return False
    d = f["def"]
    n = f["name"]
    if n not in PASS_NAMES:
        return False
    return (d.startswith("core::pin::") or d.startswith("core::ops::deref::") or d.startswith("core::borrow::") or
            d.startswith("core::option::") or d.startswith("core::convert::") or "::_::" in d or n in ("project", "project_ref")
            or d.startswith("core::iter::"))


_may_proto_cache = {}


def may_proto(crate, f, depth=0):
    """may a call to callee f perform protocol calls on a downstream passed to it?"""
    if f is None:
        return True   # indirect call
    d = f.get("res") or f["def"]
    if d.startswith(("core::", "alloc::", "std::")):
        return False
    if f.get("trait") in PROTO_TRAITS:
        return True
    key = (crate.name, d)
    if key in _may_proto_cache:
        return _may_proto_cache[key]
    body = crate.bodies.get(d)
    if body is None:
        # unresolved trait method / other crate: only dangerous if it can name a protocol trait; the lattice,
        # variadics and pin-project helpers cannot, the futures sink extension methods can
        r = d.startswith(("futures", "sinktools", "dfir_pipes", "tokio"))
        _may_proto_cache[key] = r
        return r
    _may_proto_cache[key] = True  # recursion guard (conservative)
    r = False
    if depth < 6:
        for bb, t in body.calls():
            f2 = t.get("f")
            if f2 is None or may_proto(crate, f2, depth + 1):
                r = True
                break
        # closures defined in the helper
        if not r:
            for cb in crate.closures_of(body.def_path):
                for bb, t in cb.calls():
                    f2 = t.get("f")
                    if f2 is None or may_proto(crate, f2, depth + 1):
                        r = True
                        break
    else:
        r = True
    _may_proto_cache[key] = r
    return r


class Origins:
    """alias resolution: local -> (root_local, path tuple of field names)"""

    def __init__(self, body):
        self.b = body
        self.defs = {}
        for bb in range(body.n):
            for i, s in enumerate(body.stmts(bb)):
                if "lhs" in s and isinstance(s["lhs"], int):
                    self.defs.setdefault(s["lhs"], []).append(("assign", bb, s["rv"]))
                elif "lhs" in s and "*" not in pl_projs(s["lhs"]):
                    # partial write into the local itself (a write through a pointer held in the
                    # local does not redefine the local): makes the local multi-def
                    self.defs.setdefault(pl_local(s["lhs"]), []).append(("partial", bb, s["rv"]))
            t = body.term(bb)
            if t["k"] in ("call", "yield") and "dst" in t:
                d = t["dst"]
                if isinstance(d, int):
                    self.defs.setdefault(d, []).append(("call", bb, t))
                elif "*" not in pl_projs(d):
                    self.defs.setdefault(pl_local(d), []).append(("partial", bb, t))
        self.memo = {}
        self.upvars = body.upvar_names() if body.kind == "Closure" else {}

    def single_def(self, local):
        ds = [d for d in self.defs.get(local, []) if d[0] != "partial"]
        ps = [d for d in self.defs.get(local, []) if d[0] == "partial"]
        if len(ds) == 1 and not ps:
            return ds[0]
        return None

    def origin(self, local, depth=0):
        if local in self.memo:
            return self.memo[local]
        self.memo[local] = (local, ())  # cycle guard
        res = (local, ())
        d = self.single_def(local)
        if d is not None and depth < 40:
            kind, bb, x = d
            if kind == "assign":
                rv = x
                if rv["k"] == "use":
                    p = op_place(rv["ops"][0])
                    if p is not None:
                        res = self.origin_place(p, depth + 1)
                elif rv["k"] in ("ref", "refmut", "rawptr", "fakeref"):
                    res = self.origin_place(rv["p"], depth + 1)
                elif rv["k"] == "cast" and rv["ops"]:
                    p = op_place(rv["ops"][0])
                    if p is not None:
                        res = self.origin_place(p, depth + 1)
            elif kind == "call" and x["k"] == "call":
                f = x.get("f")
                if is_passthrough(f) and x["a"]:
                    p = op_place(x["a"][0])
                    if p is not None:
                        res = self.origin_place(p, depth + 1)
                elif x["a"] and self._ref_like(self.b.locals[local]):
                    # opaque call returning a reference-like value: it points into whatever its first
                    # self-derived argument points into ("?" marks the unknown projection)
                    for a in x["a"]:
                        p = op_place(a)
                        if p is None:
                            continue
                        r0, p0 = self.origin_place(p, depth + 1)
                        if r0 == 1 and self.b.kind != "Closure":
                            res = (r0, p0 + ("?" + (f["name"] if f else ""),))
                            break
        self.memo[local] = res
        return res

    @staticmethod
    def _ref_like(ty):
        return (ty.startswith("&") or "Pin<&" in ty or "Option<&" in ty or "Projection" in ty or "Option<core::pin::Pin<&" in ty
                or "::RefMut<" in ty or "::Ref<" in ty or "::ValuesMut<" in ty or "::IterMut<" in ty or "::Entry<" in ty or "::OccupiedEntry<" in ty or "::VacantEntry<" in ty)

    def origin_place(self, place, depth=0):
        projs0 = pl_projs(place)
        if projs0 and projs0[0].startswith(".") and depth < 40:
            # field of a locally built tuple (`match (&mut self.0, other.0)`): resolve to the operand stored there
            d = self.single_def(pl_local(place))
            if d is not None and d[0] == "assign" and d[2]["k"] == "agg" and d[2]["agg"] == "tuple":
                idx = projs0[0][1:].split(":")[0]
                if idx.isdigit() and int(idx) < len(d[2]["ops"]):
                    p = op_place(d[2]["ops"][int(idx)])
                    if p is not None:
                        rest = projs0[1:]
                        inner = p if not rest else ([p] if isinstance(p, int) else list(p)) + rest
                        return self.origin_place(inner, depth + 1)
        root, path = self.origin(pl_local(place), depth)
        extra = []
        for pr in pl_projs(place):
            if pr.startswith("."):
                idx = pr[1:].split(":")[0]
                name = pr.split(":", 1)[1] if ":" in pr else idx
                if self.upvars and root == 1 and not path and not extra and idx.isdigit() and int(idx) in self.upvars:
                    name = "^" + self.upvars[int(idx)]
                extra.append(name)
            elif pr.startswith("["):
                extra.append("[]")
        return (root, path + tuple(extra))

    def ident(self, place):
        """printable identity of a receiver place"""
        root, path = self.origin_place(place)
        names = self.b.var_names()
        r = names.get(root, "_%d" % root)
        if root == 1 and (self.b.kind != "Closure"):
            r = "self"
        return r + "".join("." + p for p in path)


class FnAnalysis:
    """protocol facts of one function body"""

    def __init__(self, crate, body, spec, self_ty=None):
        self.crate = crate
        self.b = body
        self.spec = spec
        self.self_ty = self_ty
        self.org = Origins(body)
        self.tags = {}
        self.events = {}   # bb -> event dict for protocol calls
        self.helper_summ = {}   # callee def -> {"ready": frozenset, "findone": frozenset}
        self._scan()
        self.scan_foralls()

    def forall_event(self, bb):
        return bb in self.scan_foralls()

    def forall_tag(self, bb):
        fe = self.scan_foralls().get(bb)
        return fe["tag"] if fe else None

    def scan_foralls(self):
        """`iter_over(self.coll).try_fold/for_each/..(closure)` where the closure performs one protocol operation on
        its element and chains the accumulator: an event on every element (`coll.*`)."""
        if hasattr(self, "foralls"):
            return self.foralls
        self.foralls = {}
        b = self.b
        for bb, t in b.calls():
            f = t.get("f")
            if not f or f.get("trait") != "core::iter::traits::iterator::Iterator" or f["name"] not in ("try_fold", "try_for_each"):
                continue
            if not t["a"]:
                continue
            p0 = op_place(t["a"][0])
            if p0 is None:
                continue
            it_ident = self.org.ident(p0)
            if not it_ident.startswith("self."):
                continue
            parts = it_ident.split(".")
            while parts and parts[-1].startswith("?"):
                step = parts.pop()
                if step[1:] not in ("values_mut", "iter_mut", "by_ref", "as_mut"):
                    parts = None
                    break
            if not parts:
                continue
            coll = ".".join(parts)
            # the closure argument
            cdef = None
            for a in t["a"][1:]:
                p = op_place(a)
                if p is not None and isinstance(p, int) and b.locals[p].startswith("closure#"):
                    cdef = b.locals[p][len("closure#"):]
            cb = self.crate.bodies.get(cdef) if cdef else None
            if cb is None:
                continue
            cfa = FnAnalysis(self.crate, cb, self.spec, None)
            elem_idents = set(ev["ident"] for ev in cfa.events.values())
            if len(elem_idents) != 1:
                continue
            elem = next(iter(elem_idents))
            kinds = set(ev["kind"] for ev in cfa.events.values())
            if len(kinds) != 1 or "send" in kinds:
                continue
            kind = next(iter(kinds))
            # accumulator chaining: the accumulator parameter must be matched Ready on every success return
            acc = None
            if f["name"] == "try_fold" and cb.argc >= 3 and cb.locals[2].startswith("core::task::poll::Poll<"):
                acc = 2
                cfa.tags[2] = ("ready", "<acc>", "poll_ok", False)
            scratch = ImplResult()
            sm = run_typestate(cfa, frozenset(), frozenset(), {}, scratch, "helper", {})
            ok = False
            if kind == "ready":
                ok = sm["ready"] is not None and elem in sm["ready"] and (acc is None or "<acc>" in sm["ready"])
            else:
                nm = kind[4:]
                ok = sm["findone"] is not None and (nm, elem) in sm["findone"] and (acc is None or "<acc>" in (sm["ready"] or ()))
            if acc is None and f["name"] == "try_fold":
                ok = False
            if not ok:
                continue
            ident = coll + ".*"
            level = "poll"
            tag = (kind, ident, level, False)
            self.foralls[bb] = {"tag": tag, "closure": cdef}
            self.events[bb] = {"kind": kind, "ident": ident, "own": False, "dst": t.get("dst"), "bb": bb, "level": level,
                               "dkind": "sink", "forall": True}
            if isinstance(t.get("dst"), int) and t["dst"] != 0:
                self.tags[t["dst"]] = tag
        return self.foralls

    def helper_tag(self, t):
        """tag for the result of a call to an analysed inherent helper on the whole combinator"""
        f = t.get("f")
        if not f:
            return None
        d = f.get("res") or f["def"]
        if d in self.helper_summ and t["a"]:
            p = op_place(t["a"][0])
            if p is not None and self.org.ident(p) == "self":
                dty = self.b.locals[pl_local(t["dst"])] if t.get("dst") is not None else ""
                lvl = "step" if "PushStep" in dty else "poll"
                return ("helper:" + d, "self", lvl, True)
        return None

    # -- protocol call recognition
    def proto_call(self, t):
        f = t.get("f")
        if not f or f.get("trait") not in PROTO_TRAITS:
            return None
        return PROTO_TRAITS[f["trait"]][2].get(f["name"])

    def proto_level(self, t):
        return PROTO_TRAITS[t["f"]["trait"]][1]

    def proto_kind(self, t):
        return PROTO_TRAITS[t["f"]["trait"]][0]

    def _scan(self):
        b = self.b
        for bb, t in b.calls():
            pc = self.proto_call(t)
            if pc and t["a"]:
                p = op_place(t["a"][0])
                if p is None:
                    continue
                ident = self.org.ident(p)
                own = self.is_own_self_call(t)
                self.events[bb] = {"kind": pc, "ident": ident, "own": own, "dst": t.get("dst"), "bb": bb,
                                   "level": self.proto_level(t), "dkind": self.proto_kind(t)}
                if pc != "send" and isinstance(t.get("dst"), int) and t["dst"] != 0:
                    self.tags[t["dst"]] = (pc, ident, self.proto_level(t), own)

    def is_own_self_call(self, t):
        """protocol call on the combinator itself (e.g. self.as_mut().poll_ready(ctx))"""
        f = t["f"]
        if self.self_ty is None:
            return False
        s = f.get("self", "")
        return s == self.self_ty

    # -- tags of places (flow-insensitive over single-def temporaries)
    def tag_of_local(self, local, depth=0):
        if local in self.tags:
            return self.tags[local]
        if depth > 20:
            return None
        d = self.org.single_def(local)
        res = None
        if d is not None:
            kind, bb, x = d
            if kind == "assign" and x["k"] == "use":
                p = op_place(x["ops"][0])
                if p is not None:
                    res = self.tag_of_place(p, depth + 1)
            elif kind == "assign" and x["k"] == "agg":
                res = self.literal_tag(x)
            elif kind == "call" and x["k"] == "call" and x.get("f"):
                f = x["f"]
                n = f["name"]
                ht = self.helper_tag(x)
                if ht is not None:
                    res = ht
                elif n in ("convert_into", "try_convert_into") and x["a"]:
                    p = op_place(x["a"][0])
                    if p is not None:
                        res = self.tag_of_place(p, depth + 1)
                elif n == "pending" and "PushStep" in f.get("impl_self", "") + f["def"]:
                    res = ("lit", "pending", None, False)
                elif n == "branch" and f.get("trait", "").endswith("try_trait::Try") and x["a"]:
                    p = op_place(x["a"][0])
                    src = self.tag_of_place(p, depth + 1) if p is not None else None
                    if src and src[2] == "result":
                        res = (src[0], src[1], "cf", src[3])
                    elif src and src[2] == "poll":
                        res = (src[0], src[1], "cf_poll", src[3])
                elif n in ("map_err", "map_ok", "map") and x["a"] and (f["def"].startswith("core::task::poll") or f["def"].startswith("core::result")):
                    p = op_place(x["a"][0])
                    if p is not None:
                        res = self.tag_of_place(p, depth + 1)
                elif n == "from_residual":
                    res = ("lit", "fail", None, False)
        self.tags[local] = res
        return res

    def literal_tag(self, rv):
        adt = rv.get("adt") or {}
        v = adt.get("variant")
        d = adt.get("def", "")
        if d.endswith("push::PushStep"):
            return ("lit", "success" if v == "Done" else "pending", None, False)
        if d == "core::task::poll::Poll":
            if v == "Pending":
                return ("lit", "pending", None, False)
            inner = op_place(rv["ops"][0]) if rv["ops"] else None
            if inner is not None and isinstance(inner, int):
                d0 = self.org.single_def(inner)
                if d0 is not None and d0[0] == "assign" and d0[2]["k"] == "agg" and d0[2]["agg"] == "tuple" and not d0[2]["ops"]:
                    return ("lit", "success", None, False)   # Poll::Ready(())
                it = self.tag_of_local(inner)
                if it and it[0] == "lit":
                    return it
                if it and it[2] == "result":
                    # Poll::Ready(result of inner op): success iff that result is Ok
                    return (it[0], it[1], "result", it[3])
                return None
            if rv["ops"] and "c" in rv["ops"][0] and rv["ops"][0].get("ty") == "()":
                return ("lit", "success", None, False)   # Poll::Ready(())
            return None
        if d == "core::result::Result":
            return ("lit", "success" if v == "Ok" else "fail", None, False)
        return None

    def tag_of_place(self, place, depth=0):
        if isinstance(place, int):
            return self.tag_of_local(place, depth)
        projs0 = pl_projs(place)
        if len(projs0) == 1 and projs0[0].startswith(".") and depth < 20:
            # field of a locally built tuple: the tag of the operand stored there
            d = self.org.single_def(pl_local(place))
            if d is not None and d[0] == "assign" and d[2]["k"] == "agg" and d[2]["agg"] == "tuple":
                idx = int(projs0[0][1:].split(":")[0])
                if idx < len(d[2]["ops"]):
                    p = op_place(d[2]["ops"][idx])
                    if p is not None:
                        return self.tag_of_place(p, depth + 1)
                return None
        base = self.tag_of_local(pl_local(place), depth)
        if base is None:
            return None
        projs = [p for p in pl_projs(place)]
        if base[2] == "poll" and projs[:1] == ["@Ready"] and len(projs) == 2:
            return (base[0], base[1], "result", base[3])
        if base[2] == "cf_poll" and projs[:1] == ["@Continue"] and len(projs) == 2:
            return (base[0], base[1], "poll_ok", base[3])
        return None

    # -- switch refinement: returns dict target_bb -> list of (tag, success: bool)
    def switch_info(self, bb):
        t = self.b.term(bb)
        if t["k"] != "switch":
            return None
        dp = op_place(t["d"])
        if dp is None or not isinstance(dp, int):
            return None
        d = self.org.single_def(dp)
        if d is None or d[0] != "assign" or d[2]["k"] != "discr":
            return None
        rv = d[2]
        tag = self.tag_of_place(rv["p"])
        if tag is None or tag[0] == "lit":
            return None
        variants = {v: n for v, n in (rv.get("variants") or [])}
        out = {}
        for val, tgt in t["ts"]:
            name = variants.get(val)
            out.setdefault(tgt, []).append((tag, (tag[2], name) in SUCCESS, name))
        # otherwise edge: the remaining variants
        rest = [n for v, n in variants.items() if v not in [x for x, _ in t["ts"]]]
        if len(rest) == 1:
            out.setdefault(t["o"], []).append((tag, (tag[2], rest[0]) in SUCCESS, rest[0]))
        return out


def short(ident):
    return ident


# =============================================================================== typestate dataflow

class State:
    """one disjunct: must-ready set, may-finalize-started set, must-finalize-done set, known bool locals"""
    __slots__ = ("ready", "fin_started", "fin_done", "bools")

    def __init__(self, ready=frozenset(), fin_started=frozenset(), fin_done=frozenset(), bools=frozenset()):
        self.ready = ready
        self.fin_started = fin_started
        self.fin_done = fin_done
        self.bools = bools

    def key(self):
        return (self.ready, self.fin_started, self.fin_done, self.bools)

    def __eq__(self, o):
        return self.key() == o.key()

    def __hash__(self):
        return hash(self.key())

    def join(self, o):
        return State(self.ready & o.ready, self.fin_started | o.fin_started, self.fin_done & o.fin_done, self.bools & o.bools)

    def copy(self, **kw):
        s = State(self.ready, self.fin_started, self.fin_done, self.bools)
        for k, v in kw.items():
            setattr(s, k, v)
        return s


MAX_DISJUNCTS = 12


def dj_join(a, b):
    """join of two disjunct sets (frozensets of State): union, merging disjuncts that agree on bools; capped"""
    u = set(a) | set(b)
    by = {}
    for st in u:
        by.setdefault(st.bools, []).append(st)
    out = set()
    for k, lst in by.items():
        m = lst[0]
        for x in lst[1:]:
            m = m.join(x)
        out.add(m)
    if len(out) > MAX_DISJUNCTS:
        lst = list(out)
        m = lst[0]
        for x in lst[1:]:
            m = m.join(x)
        out = {m}
    return frozenset(out)


def related(a, b):
    return a == b or a.startswith(b + ".") or b.startswith(a + ".")


class ImplResult:
    def __init__(self):
        self.violations = []    # (rule, fnbody, detail-key, msg, bb)
        self.sends = 0
        self.readies = 0
        self.fins = 0
        self.downstreams = set()
        self.summary_ready = None
        self.unresolved_returns = 0
        self.ret_sites = 0


def run_typestate(fa, entry_ready, own_ready_summary, own_fin_summary, res, fn_role, all_down):
    """fn_role: 'ready' | 'send' | 'fin:<name>' | 'helper'
    returns summary {"ready": must-ready-on-success, "findone": must-fin-done-on-success, "n": success return sites}"""
    b = fa.b
    spec = fa.spec
    summary = {"ready": None, "findone": None, "n": 0}
    seen_viol = set()
    report = {"on": False}

    def viol(rule, key, msg, bb):
        if report["on"] and (rule, key) not in seen_viol:
            seen_viol.add((rule, key))
            res.violations.append((rule, b, key, msg, bb))

    def contribute(st, tag):
        """_0 assigned a value with protocol tag `tag` in state st"""
        if report["on"]:
            res.ret_sites += 1
        if tag is None:
            if report["on"]:
                res.unresolved_returns += 1
            return
        if tag[0] == "lit":
            if tag[1] != "success":
                return
            r, fd = st.ready, st.fin_done
        else:
            kind, ident, level, own = tag
            r, fd = st.ready, st.fin_done
            if kind == "ready":
                r = r | (own_ready_summary if own else frozenset([ident]))
            elif kind.startswith("fin:"):
                nm = kind[4:]
                fd = fd | (own_fin_summary.get(nm, frozenset()) if own else frozenset([(nm, ident)]))
            elif kind.startswith("helper:"):
                hs = fa.helper_summ.get(kind[7:], {})
                r = r | hs.get("ready", frozenset())
                fd = fd | hs.get("findone", frozenset())
        if not report["on"]:
            return
        summary["n"] += 1
        summary["ready"] = r if summary["ready"] is None else summary["ready"] & r
        summary["findone"] = fd if summary["findone"] is None else summary["findone"] & fd
        if fn_role.startswith("fin:"):
            nm = fn_role[4:]
            missing = [d for d in sorted(all_down) if not fin_satisfied(spec.kind, nm, all_down[d], fd, d)]
            if missing:
                viol("finalize", "missing:" + ",".join(missing),
                     "%s can return success without the corresponding finalize having succeeded on downstream %s" % (nm, ", ".join(missing)), None)

    def is_ready(ident, ready):
        if ident in ready:
            return True
        return star_covers(ident, ready)

    def step(bb, st):
        """transfer one disjunct through block bb; returns dict succ -> State"""
        ready, fs, fd, bools = set(st.ready), set(st.fin_started), set(st.fin_done), dict(st.bools)

        def cur():
            return State(frozenset(ready), frozenset(fs), frozenset(fd), frozenset(bools.items()))
        for s in b.stmts(bb):
            if "lhs" not in s:
                continue
            lhs, rv = s["lhs"], s["rv"]
            if lhs == 0:
                tag = None
                if rv["k"] == "agg":
                    tag = fa.literal_tag(rv)
                elif rv["k"] == "use":
                    p = op_place(rv["ops"][0])
                    if p is not None:
                        tag = fa.tag_of_place(p)
                contribute(cur(), tag)
            elif isinstance(lhs, int) and b.locals[lhs] == "bool":
                if rv["k"] == "use" and rv["ops"][0].get("c") in ("true", "false"):
                    bools[lhs] = rv["ops"][0]["c"] == "true"
                elif rv["k"] == "use" and isinstance(op_place(rv["ops"][0]), int) and op_place(rv["ops"][0]) in bools:
                    bools[lhs] = bools[op_place(rv["ops"][0])]
                else:
                    bools.pop(lhs, None)
        t = b.term(bb)
        if t["k"] == "call":
            ev = fa.events.get(bb)
            if isinstance(t.get("dst"), int):
                bools.pop(t["dst"], None)
            if ev:
                ident = ev["ident"]
                if ev["kind"] == "ready":
                    if report["on"]:
                        res.readies += 1
                    if not ev["own"]:
                        ready.discard(ident)
                elif ev["kind"] == "send":
                    if report["on"]:
                        res.sends += 1
                    if not ev["own"]:
                        if ident in fs:
                            viol("ready", "send-after-finalize:" + ident,
                                 "start_send on downstream `%s` after a finalize call on it was started" % ident, bb)
                        elif not is_ready(ident, ready):
                            why = " (the receiver may be freshly created: it was obtained through %s)" % fresh_step(ident) if fresh_step(ident) else ""
                            viol("ready", "unready-send:" + ident,
                                 "start_send on downstream `%s` is not dominated by a successful poll_ready on it%s" % (ident, why), bb)
                        ready.discard(ident)
                        for r in list(ready):
                            if r.endswith(".*") and ident.startswith(r[:-1]):
                                ready.discard(r)
                    else:
                        ready.clear()
                elif ev["kind"].startswith("fin:"):
                    if report["on"]:
                        res.fins += 1
                    if not ev["own"]:
                        fs.add(ident)
                        ready.discard(ident)
                    else:
                        ready.clear()
                if t.get("dst") == 0 and ev["kind"] != "send":
                    contribute(cur(), (ev["kind"], ident, ev["level"], ev["own"]))
            else:
                f = t.get("f")
                if not is_passthrough(f) and may_proto(fa.crate, f) and not fa.forall_event(bb):
                    for a in t["a"]:
                        p = op_place(a)
                        if p is None:
                            continue
                        ident = fa.org.ident(p)
                        for r in list(ready):
                            if related(r, ident):
                                ready.discard(r)
                if t.get("dst") == 0:
                    tag = fa.helper_tag(t) or fa.forall_tag(bb)
                    if tag is not None:
                        pass
                    elif f and f["name"] == "pending":
                        tag = ("lit", "pending", None, False)
                    elif f and f["name"] == "from_residual":
                        tag = ("lit", "fail", None, False)
                    elif f and f["name"] in ("convert_into", "try_convert_into", "map_err", "map_ok", "map") and t["a"]:
                        p = op_place(t["a"][0])
                        tag = fa.tag_of_place(p) if p is not None else None
                    contribute(cur(), tag)
        base = cur()
        outs = {}
        sw = fa.switch_info(bb)
        bool_sw = None
        if t["k"] == "switch":
            dp = op_place(t["d"])
            if isinstance(dp, int) and dp in bools:
                bool_sw = bools[dp]
        edges = b.succ_edges(bb)
        for lbl, tgt in edges:
            if bool_sw is not None:
                # switchInt on a bool: value 0 = false, otherwise = true
                if lbl == 0 and bool_sw:
                    continue
                if lbl == "otherwise" and not bool_sw:
                    continue
            st2 = base
            if sw and tgt in sw and len([1 for _, t2 in edges if t2 == tgt]) == 1:
                for tag, success, vname in sw[tgt]:
                    if not success:
                        continue
                    kind, ident, level, own = tag
                    if kind == "ready":
                        add = own_ready_summary if own else frozenset([ident])
                        st2 = st2.copy(ready=st2.ready | add)
                    elif kind.startswith("fin:"):
                        nm = kind[4:]
                        add = own_fin_summary.get(nm, frozenset()) if own else frozenset([(nm, ident)])
                        st2 = st2.copy(fin_done=st2.fin_done | add)
                    elif kind.startswith("helper:"):
                        hs = fa.helper_summ.get(kind[7:], {})
                        st2 = st2.copy(ready=st2.ready | hs.get("ready", frozenset()), fin_done=st2.fin_done | hs.get("findone", frozenset()))
            outs[tgt] = st2 if tgt not in outs else outs[tgt].join(st2)
        return outs

    def transfer(bb, djs):
        outs = {}
        for st in djs:
            for tgt, st2 in step(bb, st).items():
                outs.setdefault(tgt, set()).add(st2)
        return {tgt: dj_join(frozenset(v), frozenset()) for tgt, v in outs.items()}

    init = frozenset([State(frozenset(entry_ready))])
    states = forward_dataflow(b, init, transfer, dj_join)
    report["on"] = True
    for bb in sorted(states):
        if b.is_cleanup(bb):
            continue
        transfer(bb, states[bb])
    return summary


LOOKUP_STEPS = {"get_mut", "get", "unwrap", "unwrap_or_else", "expect", "values_mut", "iter_mut", "index_mut", "index", "as_mut",
                "get_unchecked_mut", "unwrap_unchecked", "next", "as_pin_mut", "pin_project_pair", "get_pin_mut", "project"}


def fresh_step(ident):
    """name of a path step that may create the receiver (entry/or_insert*/insert...), or None"""
    for part in ident.split("."):
        if part.startswith("?") and len(part) > 1 and part[1:] not in LOOKUP_STEPS:
            return part[1:]
    return None


def star_covers(ident, ready):
    """an element ident `coll.?x.?y` is ready if `coll.*` is (all elements readied) and no step may create it"""
    if fresh_step(ident):
        return False
    for r in ready:
        if r.endswith(".*") and ident.startswith(r[:-1]) and "?" in ident[len(r) - 1:]:
            return True
    return False


def implied_by(spec, nm):
    """a finalize of kind nm on a downstream is also satisfied by these (Sink: close implies flush)"""
    if spec.kind == "sink" and nm == "poll_flush":
        return ("poll_close",)
    return ()


# =============================================================================== re-poll rule

def own_mutation_blocks(fa, all_down):
    """blocks that mutate the combinator's own (non-downstream) state"""
    b = fa.b
    out = set()
    for bb in range(b.n):
        if b.is_cleanup(bb):
            continue
        hit = False
        for s in b.stmts(bb):
            if "lhs" in s and not isinstance(s["lhs"], int) and "*" in pl_projs(s["lhs"]):
                ident = fa.org.ident(s["lhs"])
                if ident.startswith("self") and not any(related(ident, d) for d in all_down):
                    hit = True
            if "setdiscr" in s and not isinstance(s["setdiscr"], int):
                ident = fa.org.ident(s["setdiscr"])
                if ident.startswith("self") and not any(related(ident, d) for d in all_down):
                    hit = True
        t = b.term(bb)
        if t["k"] == "call" and bb not in fa.events and not is_passthrough(t.get("f")):
            for a in t["a"]:
                p = op_place(a)
                if p is None:
                    continue
                ty = b.locals[pl_local(p)] if isinstance(p, int) else None
                if ty is None:
                    continue
                if not (ty.startswith("&mut ") or ty.startswith("core::pin::Pin<&mut ")):
                    continue
                ident = fa.org.ident(p)
                if ident.startswith("self") and ident != "self" and not any(related(ident, d) for d in all_down):
                    hit = True
        if t["k"] == "drop":
            pass
        if hit:
            out.add(bb)
    return out


def pending_return_blocks(fa):
    """blocks that assign a possibly-pending value to the return place"""
    b = fa.b
    out = set()
    for bb in range(b.n):
        if b.is_cleanup(bb):
            continue
        for s in b.stmts(bb):
            if "lhs" in s and s["lhs"] == 0:
                rv = s["rv"]
                tag = None
                if rv["k"] == "agg":
                    tag = fa.literal_tag(rv)
                elif rv["k"] == "use":
                    p = op_place(rv["ops"][0])
                    tag = fa.tag_of_place(p) if p is not None else None
                if tag is None or tag[0] != "lit" or tag[1] == "pending":
                    out.add(bb)
        t = b.term(bb)
        if t["k"] == "call" and t.get("dst") == 0:
            f = t.get("f")
            if f and f["name"] == "from_residual":
                continue
            out.add(bb)
    return out


def repoll_check(fa, all_down, res):
    b = fa.b
    muts = own_mutation_blocks(fa, all_down)
    pend = pending_return_blocks(fa)
    for bb, ev in sorted(fa.events.items()):
        if ev["kind"] != "send" or ev["own"]:
            continue
        if bb in muts:
            continue
        pa = b.find_path(0, {bb}, avoid=muts)
        if pa is None:
            continue
        pb = None
        for s in b.succs(bb):
            pb = b.find_path(s, pend, avoid=muts)
            if pb:
                break
        if pb:
            res.violations.append(("repoll", b, "resend:" + ev["ident"],
                                   "start_send on `%s` lies on a re-poll cycle (entry → send → Pending → entry) that mutates none of the combinator's own state, "
                                   "so a re-polled call sends the same item again" % ev["ident"], bb))


# =============================================================================== per-impl driver

def analyze_impl(crate, imp, spec):
    """run all protocol rules on one trait impl; returns ImplResult"""
    res = ImplResult()
    self_ty = imp["self"]
    methods = {}
    for it in imp["items"]:
        if it.get("fn"):
            b = crate.bodies.get(it["def"])
            if b is not None:
                methods[it["name"]] = b
    fas = {n: FnAnalysis(crate, b, spec, self_ty) for n, b in methods.items() if n in (spec.ready, spec.send) + tuple(spec.fins)}
    # inherent helpers called with the whole combinator as receiver
    helpers = {}
    work = list(fas.values())
    while work:
        fa = work.pop()
        for bb, t in fa.b.calls():
            f = t.get("f")
            if not f or bb in fa.events:
                continue
            callee = crate.bodies.get(f.get("res") or f["def"])
            if callee is None or callee.def_path in helpers or any(callee is x.b for x in fas.values()):
                continue
            if not t["a"]:
                continue
            p = op_place(t["a"][0])
            if p is None:
                continue
            if fa.org.ident(p) == "self" and callee.kind == "AssocFn":
                h = FnAnalysis(crate, callee, spec, self_ty)
                if h.events:
                    helpers[callee.def_path] = h
                    work.append(h)
    res.helpers = sorted(helpers)
    all_down = {}
    for fa in list(fas.values()) + list(helpers.values()):
        for ev in fa.events.values():
            if not ev["own"]:
                all_down[ev["ident"]] = ev["dkind"]
    res.downstreams = all_down
    own_ready = frozenset()
    own_fin = {}
    # helper summaries first (helpers are analysed with nothing ready at entry)
    hsumm = {}
    scratch = ImplResult()
    for d, h in helpers.items():
        sm = run_typestate(h, frozenset(), frozenset(), {}, scratch, "helper", all_down)
        hsumm[d] = {"ready": sm["ready"] or frozenset(), "findone": sm["findone"] or frozenset()}
    for fa in list(fas.values()) + list(helpers.values()):
        fa.helper_summ = hsumm
        fa.tags = {k: v for k, v in fa.tags.items() if v is not None and v[0] in ("ready",) or (v is not None and v[0].startswith("fin:"))}
    if spec.ready in fas:
        sm = run_typestate(fas[spec.ready], frozenset(), frozenset(), {}, res, "ready", all_down)
        own_ready = sm["ready"] if sm["ready"] is not None else frozenset()
        res.summary_ready = own_ready
        res.ready_success_returns = sm["n"]
    if spec.send in fas:
        run_typestate(fas[spec.send], own_ready, own_ready, {}, res, "send", all_down)
    for nm in spec.fins:
        if nm in fas:
            sm = run_typestate(fas[nm], frozenset(), own_ready, own_fin, res, "fin:" + nm, all_down)
            own_fin[nm] = sm["findone"] if sm["findone"] is not None else frozenset()
    for h in helpers.values():
        run_typestate(h, frozenset(), own_ready, own_fin, res, "helper", all_down)
    for nm, fa in list(fas.items()) + list(helpers.items()):
        if nm == spec.send:
            continue
        repoll_check(fa, all_down, res)
    res.fas = fas
    res.helper_fas = helpers
    return res
