"""C41 — every well-typed Hydro flow compiles to a valid dataflow (partial: the emitted DFIR text agrees with dfir_lang's operator table)."""
import re

import optable
import synfacts
from optable import parse_range

LEVEL = "other"

# files of hydro_lang / hydro_deploy glue that write DFIR surface syntax with parse_quote!
EMITTERS = ["hydro_lang/src/compile/ir/mod.rs", "hydro_lang/src/sim/builder.rs", "hydro_lang/src/compile/embedded.rs", "hydro_lang/src/compile/deploy.rs",
            "hydro_lang/src/deploy/deploy_graph.rs", "hydro_lang/src/deploy/deploy_graph_containerized.rs", "hydro_lang/src/deploy/deploy_graph_containerized_ecs.rs",
            "hydro_lang/src/compile/embedded_runtime.rs", "hydro_lang/src/deploy/maelstrom/deploy_maelstrom.rs"]


def tokens(t):
    out = []
    for x in t.split(" "):
        if not x:
            continue
        if x.startswith("::<") and len(x) > 3:
            out.append("::<")
            rest = x[3:]
            if rest.startswith("#") and len(rest) > 1:
                out += ["#", rest[1:]]
            else:
                out.append(rest)
        else:
            out.append(x)
    return out


def _match_close(toks, i, open_, close):
    d = 0
    for j in range(i, len(toks)):
        if toks[j] == open_:
            d += 1
        elif toks[j] == close:
            d -= 1
            if d == 0:
                return j
    return None


def invocations(t):
    """operator invocations of one DFIR-syntax template: (name, n_lifetimes, n_typeargs, n_args or None, bound ident or None)"""
    toks = tokens(t)
    out = []
    i = 0
    while i < len(toks):
        tok = toks[i]
        # an operator position follows `=`, `->` or a `]` port index that follows `->`
        interp = False
        if tok == "#" and i + 2 < len(toks) and re.match(r"^[a-z_][a-z0-9_]*$", toks[i + 1]) and toks[i + 2] in ("::<", "(") and i > 0 and toks[i - 1] in ("=", "->", "]"):
            # `-> #operator::<..>(..)`: the operator name is chosen by the generator at run time
            interp = True
            toks = toks[:i] + ["#" + toks[i + 1]] + toks[i + 2:]
            tok = toks[i]
        if (interp or re.match(r"^[a-z_][a-z0-9_]*$", tok)) and i > 0 and (toks[i - 1] in ("=", "->") or (toks[i - 1] == "]" and _port_after_arrow(toks, i - 1))):
            j = i + 1
            lifetimes = types = 0
            if j < len(toks) and toks[j] in ("::<", "::") and (toks[j] == "::<" or (j + 1 < len(toks) and toks[j + 1] == "<")):
                # generic list up to the matching `>`
                k = j + 1 if toks[j] == "::<" else j + 2
                depth = 1
                items = [[]]
                while k < len(toks) and depth:
                    if toks[k] in ("<", "::<"):
                        depth += 1
                    elif toks[k] == ">":
                        depth -= 1
                        if depth == 0:
                            break
                    elif toks[k] == "," and depth == 1:
                        items.append([])
                        k += 1
                        continue
                    items[-1].append(toks[k])
                    k += 1
                for it in items:
                    if not it:
                        continue
                    s = " ".join(it)
                    if s.startswith("'") or re.match(r"^# \w*lifetime\w*$", s):
                        lifetimes += 1
                    else:
                        types += 1
                j = k + 1
            if j < len(toks) and toks[j] == "(":
                e = _match_close(toks, j, "(", ")")
                if e is not None:
                    inner = toks[j + 1:e]
                    nargs = _count_args(inner)
                    bound = None
                    if toks[i - 1] == "=" and i >= 2:
                        bound = toks[i - 2] if toks[i - 2] != "#" else None
                        if i >= 3 and toks[i - 3] == "#":
                            bound = "#" + toks[i - 2]
                    out.append({"name": tok, "lifetimes": lifetimes, "types": types, "nargs": nargs, "bound": bound})
                    i = j  # arguments may hold closures, not operators: skip the argument list
                    i = e
        i += 1
    return out


def _port_after_arrow(toks, close_idx):
    d = 0
    for j in range(close_idx, -1, -1):
        if toks[j] == "]":
            d += 1
        elif toks[j] == "[":
            d -= 1
            if d == 0:
                return j > 0 and toks[j - 1] == "->"
    return False


def _count_args(inner):
    if not inner:
        return 0
    if "#(" in inner or any(x.startswith("#(") for x in inner) or ("#" in inner and "(" in inner and ")*" in " ".join(inner)):
        return None
    d = 0
    n = 1
    last_comma = False
    arg_start = True
    in_bars = False
    ang = 0
    prev = ""
    for x in inner:
        if (x == "<" and re.match(r"^[A-Z]\w*$", prev)) or x == "::<":
            ang += 1
        elif ang and x and set(x) == {">"}:
            ang = max(0, ang - len(x))
        prev = x
        if ang:
            continue
        if x == "|" and d == 0:
            if in_bars:
                in_bars = False
            elif arg_start:
                in_bars = True
        if x != "move":
            arg_start = x == "," and d == 0 and not in_bars
        if in_bars:
            continue
        if x in ("(", "[", "{"):
            d += 1
        elif x in (")", "]", "}"):
            d -= 1
        if x == "," and d == 0:
            n += 1
            last_comma = True
        else:
            last_comma = False
    if last_comma:
        n -= 1
    return n


def port_uses(t):
    """`-> [ port ] # ident` uses inside one template: (port, ident)"""
    toks = tokens(t)
    out = []
    for i in range(len(toks) - 5):
        if toks[i] == "->" and toks[i + 1] == "[" and toks[i + 3] == "]" and toks[i + 4] == "#":
            out.append((toks[i + 2], "#" + toks[i + 5]))
    return out


def _resolve_ident(v, m, var):
    """literal operator names a `let var: syn::Ident = ...` of the same function can hold (closest binding above the template)"""
    best = None
    for l in v["lets"]:
        if l["fn"] != m["fn"] or int(l["line"]) > int(m["line"]):
            continue
        pat = l["pat"].replace("mut ", "").split(":")[0].strip()
        if pat == var and (best is None or int(l["line"]) > int(best["line"])):
            best = l
    if best is None:
        return None
    init = best["init"]
    names = re.findall(r"parse_quote ! \( ([a-z_][a-z0-9_]*) \)", init)
    if "Ident :: new" in init:
        names += re.findall(r'"([a-z_][a-z0-9_]*)"', init)
    # every leaf of the initializer must be one of those literal forms
    return sorted(set(names)) or None


def run(ctx):
    _run_templates(ctx)
    access_isolation_rule(ctx)


def _run_templates(ctx):
    ctx.explanation = ("The code generator writes DFIR surface syntax as text templates (parse_quote!) that dfir_lang later checks against its operator table at the user's build time. A necessary "
                       "condition for 'errors never surface in generated code' that is visible in the source: every operator invocation in those templates names an operator that dfir_lang "
                       "defines, with exactly its number of arguments, a number of persistence lifetimes and type arguments inside its ranges, and only input port names it declares. The writer "
                       "(hydro_lang templates, read with syn) is cross-checked against the reader (OperatorConstraints constants, read with syn).")
    ctx.undecided = ("that arbitrary compositions of well-typed Hydro operators partition without same-tick cycles and that the Rust code inside the templates type-checks (quantifies over programs; "
                     "needs compilation of generated code)")
    ops = {o.name: o for o in optable.load_ops()}
    R = ctx.rule("C41.ops", "every DFIR operator invocation written by the Hydro code generator exists in dfir_lang's operator table with matching argument count, persistence/type argument counts in range and declared input ports", floor=150)
    RU = ctx.rule("C41.opname", "an operator name interpolated into a generator template is bound, in the same function, to a closed set of literal operator names", floor=5)
    RP = ctx.rule("C41.ports", "input ports named in generator templates are declared by the operator they feed", floor=4)
    import os
    import facts
    files = [f for f in EMITTERS if os.path.exists(os.path.join(facts.REPO, f))]
    if "hydro_lang/src/compile/ir/mod.rs" not in files or "hydro_lang/src/sim/builder.rs" not in files:
        ctx.anchor_missing(R, "hydro_lang emitters")
        return
    d = synfacts.scan(files)
    if len(ops) < 70:
        ctx.anchor_missing(R, "dfir_lang operator table (%d entries)" % len(ops))
        return
    # pseudo-operators lowered to handoffs: read from the name match in DfirGraph::insert_node_op_insts_all (no arguments, no generics)
    pseudo = set()
    for f_, v_ in synfacts.scan(["dfir_lang/src/graph/meta_graph.rs"]).items():
        for mt in v_["matches"]:
            if "name_string" in mt["scrutinee"]:
                pseudo |= {a["pat"].strip('"') for a in mt["arms"] if a["pat"].startswith('"')}
    for f, v in sorted(d.items()):
        n = 0
        for m in v["macros"]:
            if m["macro"] not in ("parse_quote", "parse_quote_spanned"):
                continue
            t = m["text"]
            if "->" not in t and not re.search(r"= [a-z_]+ (::<[^(]*> )?\(", t):
                continue
            invs = invocations(t)
            binds = {}
            expanded = []
            for inv in invs:
                if inv["name"].startswith("#"):
                    cands = _resolve_ident(v, m, inv["name"][1:])
                    ctx.inst(RU, "hydro_lang|%s|%s|%s@%s" % (f.split("src/")[-1], m["fn"].split("::")[-1][:40], inv["name"], n + len(expanded)), sample={"line": m["line"], "names": cands})
                    if cands is None:
                        ctx.violation(RU, "hydro_lang|%s|%s|%s|unresolved-operator-name" % (f.split("src/")[-1], m["fn"].split("::")[-1][:40], inv["name"]),
                                      "cannot read the set of operator names `%s` may hold" % inv["name"], "%s:%s" % (f, m["line"]))
                        continue
                    for c_ in cands:
                        expanded.append(dict(inv, name=c_, via=inv["name"]))
                else:
                    expanded.append(inv)
            for inv in expanded:
                n += 1
                k = "hydro_lang|%s|%s|%s#%d" % (f.split("src/")[-1], m["fn"].split("::")[-1][:40], inv["name"], n)
                op = ops.get(inv["name"])
                ctx.inst(R, k, sample={"line": m["line"], **inv})
                where = "%s:%s" % (f, m["line"])
                kk = "hydro_lang|%s|%s|%s" % (f.split("src/")[-1], m["fn"].split("::")[-1][:40], inv["name"])
                if op is None and inv["name"] in pseudo:
                    if inv["nargs"] or inv["lifetimes"] or inv["types"]:
                        ctx.violation(R, kk + "|pseudo-operator-args", "`%s()` takes no arguments and no generics" % inv["name"], where)
                    continue
                if op is None:
                    ctx.violation(R, kk + "|unknown-operator", "the generator writes `%s(...)`, which is not an operator of dfir_lang: the generated code fails in dfir_syntax!, not as a Rust type error in the user's program" % inv["name"], where)
                    continue
                if inv["bound"]:
                    binds[inv["bound"]] = op
                na = op.fields.get("num_args", "").strip()
                if inv["nargs"] is not None and na.isdigit() and int(na) != inv["nargs"]:
                    ctx.violation(R, kk + "|arg-count", "`%s` takes %s argument(s) in dfir_lang's table, the generator writes %d" % (inv["name"], na, inv["nargs"]), where)
                pr = parse_range(op.fields.get("persistence_args", ""))
                if pr and (inv["lifetimes"] < pr[0] or (pr[1] is not None and inv["lifetimes"] > pr[1])):
                    ctx.violation(R, kk + "|persistence-args", "`%s` accepts %s persistence lifetimes, the generator writes %d" % (inv["name"], op.fields.get("persistence_args"), inv["lifetimes"]), where)
                tr = parse_range(op.fields.get("type_args", ""))
                if tr and (inv["types"] < tr[0] or (tr[1] is not None and inv["types"] > tr[1])):
                    ctx.violation(R, kk + "|type-args", "`%s` accepts %s type arguments, the generator writes %d" % (inv["name"], op.fields.get("type_args"), inv["types"]), where)
            for port, ident in port_uses(t):
                op = binds.get(ident)
                if op is None or port.isdigit():
                    continue
                spec = op.fields.get("ports_inn", "None")
                declared = re.findall(r"[a-z_][a-z0-9_]*", spec.split("parse_quote !")[-1]) if "parse_quote" in spec else None
                k = "hydro_lang|%s|%s|%s.%s" % (f.split("src/")[-1], m["fn"].split("::")[-1][:40], op.name, port)
                ctx.inst(RP, k, sample={"line": m["line"], "declared": declared})
                if declared is None or port not in declared:
                    ctx.violation(RP, k + "|undeclared-port", "the generator connects to input port `%s` of `%s`, which declares %s" % (port, op.name, declared), "%s:%s" % (f, m["line"]))


def _offset(b, op, depth=0):
    """how many units above the value read from the counter cell (`Cell::get`) an operand is; None if it cannot be read as get() + constant"""
    from mir import op_place, pl_local, op_const
    p = op_place(op)
    if p is None or depth > 10:
        return None
    l = pl_local(p)
    defs = b.defs_of(l)
    if len(defs) != 1:
        return None
    bb, idx, rv = defs[0]
    if idx == "term":
        f = rv.get("f") or {}
        return 0 if f.get("name") == "get" and "cell" in f.get("def", "") else None
    if rv["k"] == "use":
        return _offset(b, rv["ops"][0], depth + 1)
    if rv["k"] == "bin" and rv["op"].startswith("Add"):
        a, c_ = rv["ops"]
        k = op_const(c_)
        base = _offset(b, a, depth + 1)
        if base is not None and k is not None:
            m = re.match(r"^(\d+)", str(k))
            if m:
                return base + int(m.group(1))
        return None
    return None


def access_isolation_rule(ctx, rid="C41.accessiso"):
    """A `&mut` access to a referenced handoff must sit alone in its access group, otherwise the generated code borrows the state mutably and immutably in one group (a borrow
    error in generated code, and no ordering between the writer and a reader). AccessCounter::next_group(is_mut) therefore hands out `old + a` and leaves the counter at
    `old + a + b` with a >= 1 (apart from earlier readers) and b >= 1 (apart from later readers); an immutable access returns the counter unchanged."""
    import mir
    from mir import op_place, pl_local
    R = ctx.rule(rid, "AccessCounter::next_group gives a mutable access a group strictly above the previous one and leaves the counter strictly above that group; an immutable access does not move the counter", floor=1)
    c = mir.load_crate("hydro_lang")
    bs = [b for n, b in c.bodies.items() if n.endswith("::next_group") and "compile::ir" in n]
    if not bs:
        ctx.anchor_missing(R, "AccessCounter::next_group")
        return
    b = bs[0]
    key = "hydro_lang|AccessCounter::next_group"
    # the switch on the `is_mut` parameter
    sw = None
    for bb in range(b.n):
        t = b.term(bb)
        if t["k"] == "switch":
            d = op_place(t["d"])
            if d is not None:
                for _bb, idx, rv in b.defs_of(pl_local(d)):
                    if idx != "term" and rv["k"] == "use" and op_place(rv["ops"][0]) == 2:
                        sw = (bb, t)
    if sw is None:
        ctx.anchor_missing(R, "branch on is_mut in next_group")
        return
    bb, t = sw
    false_t = [tg for v, tg in t["ts"] if int(v) == 0]
    mut_t = t["o"]
    imm_t = false_t[0] if false_t else None
    mut_blocks = b.reachable(start=mut_t) - (b.reachable(start=imm_t) if imm_t is not None else set())
    imm_blocks = (b.reachable(start=imm_t) if imm_t is not None else set()) - b.reachable(start=mut_t)
    sets = [(x, tt) for x, tt in b.calls() if (tt.get("f") or {}).get("name") == "set" and "cell" in (tt.get("f") or {}).get("def", "")]
    mut_sets = [(x, tt) for x, tt in sets if x in mut_blocks]
    imm_sets = [(x, tt) for x, tt in sets if x in imm_blocks]
    # returned group: operand of the Frozen(..) aggregate, per branch
    ret_local = None
    for _bb, _i, lhs, rv in b.assignments():
        if lhs == 0 and rv["k"] == "agg" and rv["ops"]:
            p = op_place(rv["ops"][0])
            if p is not None:
                ret_local = pl_local(p)
                for __bb, idx, r2 in b.defs_of(ret_local):
                    if idx != "term" and r2["k"] == "use" and isinstance(op_place(r2["ops"][0]), int) and len(b.defs_of(pl_local(op_place(r2["ops"][0])))) > 1:
                        ret_local = pl_local(op_place(r2["ops"][0]))
    g_mut = None
    g_imm = None
    if ret_local is not None:
        for dbb, idx, rv in b.defs_of(ret_local):
            off = 0 if (idx == "term" and (rv.get("f") or {}).get("name") == "get") else (_offset(b, rv["ops"][0]) if idx != "term" and rv["k"] == "use" else None)
            if dbb in mut_blocks:
                g_mut = off
            elif dbb in imm_blocks:
                g_imm = off
    s_mut = _offset(b, mut_sets[0][1]["a"][1]) if len(mut_sets) == 1 and len(mut_sets[0][1]["a"]) == 2 else None
    ctx.inst(R, key, sites=len(sets), sample={"mutable": {"group": g_mut, "counter_after": s_mut}, "immutable": {"group": g_imm, "counter_writes": len(imm_sets)}})
    if g_mut is None or s_mut is None:
        ctx.violation(R, key + "|unrecognised-form", "cannot read the mutable branch as group = get() + a, counter = get() + a + b", b.loc(mut_t))
    else:
        if g_mut < 1:
            ctx.violation(R, key + "|mutable-shares-previous-group", "a mutable access is put into the group earlier immutable accesses already use", b.loc(mut_t))
        if s_mut <= g_mut:
            ctx.violation(R, key + "|mutable-shares-next-group", "after a mutable access the counter stays at the mutable access's own group (get() + %d, group get() + %d): the next immutable access "
                          "joins that group - a `&mut` and a `&` borrow of the same state in one access group" % (s_mut, g_mut), b.loc(mut_sets[0][0]))
    if imm_sets or (g_imm not in (0, None)):
        ctx.violation(R, key + "|immutable-moves-counter", "an immutable access changes the counter or does not return the current group", b.loc(imm_t if imm_t is not None else bb))
