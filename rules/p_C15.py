"""C15 — merged network sources (partial: nothing polled is dropped; tag = sender; end only when all sources ended)."""
import mir
import linear
from framework import fn_key
from mir import op_place, pl_local, pl_projs, pl_fields
from p_C11 import linear_rule, variant_edge_targets

LEVEL = "other"


def find_impl(c, self_prefix, trait_suffix):
    for imp in c.impls_of_trait(trait_suffix):
        if imp["self"].startswith(self_prefix):
            return imp
    return None


def run(ctx):
    ctx.explanation = ("Ownership and dominance rules on MergeSource::poll_next and TaggedSource::poll_next (MIR, all paths): a payload polled out of a source reaches the "
                       "return value and the place holding it is never overwritten or dropped while it may hold it; the tag of every yielded item is the source's own id; "
                       "Ready(None) only on the all-sources-ended edge and a source is removed only on its own Ready(None).")
    ctx.undecided = "fairness / cursor arithmetic after removals, per-sender order (value-level)"
    ctx.assumptions = ["Vec::retain/index behave as documented"]
    c = mir.load_crate("hydro_deploy_integration")
    ms = find_impl(c, "hydro_deploy_integration::MergeSource<", "stream::Stream")
    ts = find_impl(c, "hydro_deploy_integration::TaggedSource<", "stream::Stream")
    R_LIN = ctx.rule("C15.linear", "the payload of a Ready(Some(..)) polled from a source flows to the return value; its holder is never overwritten or dropped while it may hold it", floor=2)
    R_TAG = ctx.rule("C15.tag", "every item yielded by TaggedSource is tagged with the source's own id field", floor=1)
    R_END = ctx.rule("C15.end", "MergeSource returns Ready(None) only on the sources.is_empty() edge and removes a source only on that source's own Ready(None) edge", floor=2)
    if ms is None or ts is None:
        ctx.anchor_missing(R_LIN, "impl Stream for MergeSource / TaggedSource")
        return
    groups = []
    for imp in (ms, ts):
        b = c.impl_method(imp, "poll_next")
        groups.append(("%s|%s" % (c.name, fn_key(c, b)), [b] + c.closures_of(b.def_path)))
    linear_rule(ctx, c, R_LIN, groups, "C15")

    # ---- tag
    b = c.impl_method(ts, "poll_next")
    key = "%s|%s" % (c.name, fn_key(c, b))
    tagged = 0
    for cb in c.closures_of(b.def_path):
        up = cb.upvar_names()
        for bb, i, lhs, rv in cb.assignments():
            if lhs == 0 and rv["k"] == "agg" and rv["agg"] == "tuple" and len(rv["ops"]) == 2:
                tagged += 1
                p = op_place(rv["ops"][0])
                ok = False
                if p is not None:
                    import proto
                    root, path = proto.Origins(cb).origin_place(p)
                    ok = root == 1 and path[:1] == ("^id",)
                if not ok:
                    ctx.violation(R_TAG, key + "|tag-not-id", "the first component of the yielded pair is not the captured `id`", cb.loc(bb))
    # the captured id is the source's id field
    names = b.var_names()
    id_locals = [l for l, n in names.items() if n == "id"]
    id_ok = False
    for l in id_locals:
        for bb, idx, rv in b.defs_of(l):
            if idx != "term" and rv["k"] == "use":
                p = op_place(rv["ops"][0])
                if p is not None and "id" in pl_fields(p):
                    id_ok = True
    ctx.inst(R_TAG, key, sites=tagged, sample={"function": b.def_path, "tagging_closures": tagged, "id_from_self_field": id_ok})
    if not tagged:
        ctx.anchor_missing(R_TAG, "tagging closure in TaggedSource::poll_next")
    if not id_ok:
        ctx.violation(R_TAG, key + "|id-not-from-self", "the local `id` used as tag is not read from the source's own `id` field", b.loc())

    # ---- end
    b = c.impl_method(ms, "poll_next")
    key = "%s|%s" % (c.name, fn_key(c, b))
    # is_empty true-edge targets
    empty_true = set()
    for bb, t in b.calls():
        f = t.get("f")
        if f and f["name"] == "is_empty" and isinstance(t.get("dst"), int) and t["a"]:
            p = op_place(t["a"][0])
            if p is None:
                continue
            # receiver derives from the `sources` field
            ok = False
            for db, idx, rv in b.defs_of(pl_local(p)):
                if idx != "term" and rv["k"] in ("ref", "refmut") and "sources" in pl_fields(rv["p"]):
                    ok = True
            if not ok:
                continue
            for sb in range(b.n):
                tsw = b.term(sb)
                if tsw["k"] == "switch" and op_place(tsw["d"]) == t["dst"]:
                    empty_true.add(tsw["o"])
    none_returns = []
    for bb, i, lhs, rv in b.assignments():
        if lhs == 0 and rv["k"] == "agg" and (rv.get("adt") or {}).get("variant") == "Ready" and not b.is_cleanup(bb):
            p = op_place(rv["ops"][0]) if rv["ops"] else None
            if isinstance(p, int):
                for db, idx, rv2 in b.defs_of(p):
                    if idx != "term" and rv2["k"] == "agg" and (rv2.get("adt") or {}).get("variant") == "None":
                        none_returns.append(bb)
    ctx.inst(R_END, key + "|ready-none", sites=len(none_returns), sample={"function": b.def_path, "ready_none_blocks": none_returns, "is_empty_true_targets": sorted(empty_true)})
    if not none_returns or not empty_true:
        ctx.anchor_missing(R_END, "Ready(None) return / is_empty test in MergeSource::poll_next")
    for nb in none_returns:
        if not any(b.dominates(e, nb) for e in empty_true):
            ctx.violation(R_END, key + "|end-while-sources-remain", "Ready(None) (end of the merged stream) is returned on a path not guarded by sources.is_empty()", b.loc(nb))
    # removal: (*source) = None only under the Ready(None) edge of that poll
    ups = linear.upstream_result_locals(b, c)
    ready_t = variant_edge_targets(b, set(ups), "Ready")
    # inner None edge: switch on discriminant(res@Ready.0)
    none_t = set()
    for sb in range(b.n):
        tsw = b.term(sb)
        if tsw["k"] != "switch" or b.is_cleanup(sb):
            continue
        dp = op_place(tsw["d"])
        if not isinstance(dp, int):
            continue
        for db, idx, rv in b.defs_of(dp):
            if idx != "term" and rv["k"] == "discr" and pl_local(rv["p"]) in ups and "@Ready" in pl_projs(rv["p"]):
                variants = {v: n for v, n in (rv.get("variants") or [])}
                for val, tgt in tsw["ts"]:
                    if variants.get(val) == "None" and any(b.dominates(r, sb) for r in ready_t):
                        none_t.add(tgt)
    removals = []
    for bb, i, lhs, rv in b.assignments():
        if b.is_cleanup(bb) or isinstance(lhs, int) or "*" not in pl_projs(lhs):
            continue
        if not b.locals[pl_local(lhs)].startswith("&mut core::option::Option<core::pin::Pin<"):
            continue
        removals.append(bb)
    ctx.inst(R_END, key + "|removal", sites=len(removals), sample={"removal_blocks": removals, "ready_none_edge_targets": sorted(none_t)})
    if not removals:
        ctx.anchor_missing(R_END, "source removal (*source = None) in MergeSource::poll_next")
    for rb in removals:
        if not any(b.dominates(n, rb) for n in none_t):
            ctx.violation(R_END, key + "|removal-without-end", "a source is removed on a path on which it did not report Ready(None): its later items would be lost", b.loc(rb))
    # ---- cleanup: a slot marked removed (None) must be compacted away before poll_next returns: the polling loop unwraps every slot it visits
    cursor_rule(ctx, c)
    R_CL = ctx.rule("C15.cleanup", "after a source slot was marked removed, every path to return passes through the compaction (Vec::retain) of the source list", floor=1)
    retains = set(bb for bb, t in b.calls() if t.get("f") and t["f"]["name"] in ("retain", "retain_mut", "swap_remove", "remove", "drain"))
    rets = set(b.returns())
    ctx.inst(R_CL, key + "|cleanup", sites=len(removals), sample={"removal_blocks": removals, "compaction_blocks": sorted(retains)})
    if not retains:
        ctx.anchor_missing(R_CL, "compaction of the source list (Vec::retain) in MergeSource::poll_next")
    unwraps = [bb for bb, t in b.calls() if t.get("f") and t["f"]["name"] in ("unwrap", "expect") and any("Option<" in b.locals[pl_local(op_place(a))] and "core::pin::Pin<" in b.locals[pl_local(op_place(a))] for a in t["a"] if op_place(a) is not None)]
    for rb in removals:
        ok = _all_paths_pass_with_flags(b, rb, retains, rets)
        if not ok and unwraps:
            ctx.violation(R_CL, key + "|return-without-compaction", "a source slot is set to None and a path returns before the list is compacted, while the polling loop unwraps every slot it visits: "
                          "the next poll panics on the stale slot and the remaining items of all sources are never delivered", b.loc(rb), {"path_blocks": b.find_path(rb, rets, avoid=retains)})


def _all_paths_pass_with_flags(b, start, targets, exits):
    """every path start -> exit passes a target block, where bool locals set to `true` in the start block are known true
    (their `false` switch edge is infeasible) until reassigned"""
    def consts_set(bb, known):
        known = set(known)
        for st in b.stmts(bb):
            if "lhs" in st and isinstance(st["lhs"], int):
                rv = st["rv"]
                if rv["k"] == "use" and rv["ops"][0].get("c") == "true":
                    known.add(st["lhs"])
                elif rv["k"] == "use" and isinstance(op_place(rv["ops"][0]), int) and op_place(rv["ops"][0]) in known:
                    known.add(st["lhs"])
                else:
                    known.discard(st["lhs"])
        return known
    seen = set()
    work = [(start, frozenset())]
    first = True
    while work:
        bb, known = work.pop()
        if (bb, known) in seen:
            continue
        seen.add((bb, known))
        if bb in targets and not first:
            continue
        known2 = frozenset(consts_set(bb, known))
        first = False
        if bb in exits:
            return False
        t = b.term(bb)
        if t["k"] == "switch":
            p = op_place(t["d"])
            if isinstance(p, int) and p in known2:
                work.append((t["o"], known2))
                continue
        for s_ in b.succs(bb):
            work.append((s_, known2))
    return True


def cursor_rule(ctx, c):
    """Round-robin fairness of the merged sources: when ended sources are compacted out of the list, the poll cursor must move down by one for every removed entry that
    sat before it, otherwise the source that slides into the cursor's old position is skipped (or polled twice) in this round. All three merged-source `poll_next`
    implementations compact with `Vec::retain`; sibling agreement: the retain predicate is a closure that captures the poll cursor and subtracts from it."""
    from mir import op_place, pl_local
    R = ctx.rule("C15.cursor", "every compaction of a merged source list (Vec::retain in poll_next) adjusts the poll cursor inside the retain predicate", floor=3)
    n = 0
    for d, b in sorted(c.bodies.items()):
        if not d.endswith("::poll_next") or c.is_test_path(d):
            continue
        for bb, t in b.calls():
            f = t.get("f") or {}
            if f.get("name") not in ("retain", "retain_mut") or "vec::" not in f.get("def", "") or len(t.get("a", [])) < 2 or b.is_cleanup(bb):
                continue
            recv_ty = b.locals[pl_local(op_place(t["a"][0]))] if op_place(t["a"][0]) is not None else ""
            if "Vec<core::option::Option<" not in recv_ty:
                continue
            n += 1
            key = "hydro_deploy_integration|%s|retain#%d" % (fn_key(c, b), n)
            p = op_place(t["a"][1])
            aty = b.locals[pl_local(p)] if p is not None else (t["a"][1].get("ty") or "")
            cb = c.bodies.get(aty[8:]) if aty.startswith("closure#") else None
            ups = list(cb.upvar_names().values()) if cb is not None else []
            subs = 0
            if cb is not None:
                for _bb, _i, lhs, rv in cb.assignments():
                    if rv["k"] == "bin" and rv["op"].startswith("Sub"):
                        subs += 1
            ctx.inst(R, key, sample={"predicate": aty[:90], "captures": ups, "subtractions": subs})
            # alternative correct shape: the adjustment is computed outside the predicate and subtracted from the cursor field in the same function
            outer_adjust = False
            sub_locals = set(lhs_ for _b2, _i2, lhs_, rv_ in b.assignments() if isinstance(lhs_, int) and rv_["k"] == "bin" and rv_["op"].startswith("Sub"))
            for _b2, _i2, lhs_, rv_ in b.assignments():
                if not isinstance(lhs_, int) and any("cursor" in x for x in mir.pl_fields(lhs_)):
                    if rv_["k"] == "bin" and rv_["op"].startswith("Sub"):
                        outer_adjust = True
                    if rv_["k"] == "use" and op_place(rv_["ops"][0]) is not None and pl_local(op_place(rv_["ops"][0])) in sub_locals:
                        outer_adjust = True
            if (cb is None or not any("cursor" in u for u in ups) or subs == 0) and not outer_adjust:
                ctx.violation(R, "hydro_deploy_integration|%s|compaction-without-cursor-adjustment" % fn_key(c, b), "the source list is compacted, but neither the retain predicate nor the function itself subtracts from the "
                              "poll cursor: after an ended source is removed the cursor points one slot too far and a live source is skipped in this round (its siblings adjust it)", b.loc(bb))
