"""C28 — safe top-level Hydro code is eventually deterministic (partial: the three mechanisms the property names)."""
import guards
import hydroapi as A
import hydrotypes as H
import mir
import p_C29
from framework import fn_key

LEVEL = "other"
GATE_TAGS = {"agg-commutativity", "agg-idempotence", "cast-strengthens", "nondet-unguarded"}
EMIT = "hydro_lang::compile::ir::{impl#50}::emit_core"


def run(ctx):
    ctx.explanation = ("Three mechanisms make safe top-level code insensitive to tick partitioning; each is decided statically. (1) Type gates: the proof-marker tables (ValidCommutativityFor, "
                       "ValidIdempotenceFor and the four ValidMut*For tables incl. the `F: Fn` requirement of their WAS_MUT=false impls) are evaluated from the impl headers; for every "
                       "HydroNode-constructing API function every admitted instantiation must satisfy: aggregations over unordered / duplicated inputs carry commutativity / idempotence proofs, "
                       "public casts without a NonDet guard strengthen nothing (ordering, retries, boundedness), public builders of nondeterminism-exposing nodes (Batch, ObserveNonDet, MergeOrdered) "
                       "take a NonDet guard. (2) State lifetimes in emit_core (MIR, guard analysis): every use of cross_tick_state_lifetime ('static) is on the true edge of an is_top_level() test and no "
                       "tick_state_lifetime ('tick) use is on such a true edge. (3) Replay suppression: the fold_no_replay / reduce_no_replay operators are selected exactly under is_top_level() && "
                       "is_bounded(), and the multiset_delta() suffix of joins under is_top_level() of both inputs.")
    ctx.undecided = "determinism of the composed program over all tick partitions (needs execution); correctness of the DFIR operators the IR is lowered to (C21)"
    c = mir.load_crate("hydro_lang")
    S = H.Solver(c)
    p_C29.table_rules(ctx, c, S, {"proof"})
    R = ctx.rule("C28.gate", "admitted instantiations of HydroNode-constructing API functions respect the commutativity/idempotence/NonDet/cast gates", floor=120)
    for s in A.sites(c, S):
        n, bad = A.check_site(s)
        key = "hydro_lang|%s|%s" % (fn_key(c, c.bodies[s.root]) if s.root in c.bodies else s.root, s.variant)
        ctx.inst(R, key, nontrivial=n > 0, sites=n)
        seen = set()
        for tag, extra, inst in bad:
            if tag not in GATE_TAGS or (tag, extra) in seen:
                continue
            seen.add((tag, extra))
            ctx.violation(R, key + "|" + tag + ("|" + extra if extra else ""), "%s [%s] — admitted instantiation: %s" % (A.RULE_TEXT[tag], extra, inst), "%s:%s" % (s.fn["file"], s.fn["line"]),
                          {"instantiation": inst})
    # ---- emit_core
    RL = ctx.rule("C28.lifetime", "'static state only for top-level inputs: cross_tick_state_lifetime is used only on the true edge of is_top_level(), tick_state_lifetime never on it", floor=10)
    RN = ctx.rule("C28.noreplay", "fold_no_replay/reduce_no_replay are selected under is_top_level() && is_bounded(); join's multiset_delta() under is_top_level()", floor=4)
    bodies = [b for d, b in sorted(c.bodies.items()) if b.root == EMIT]
    if not bodies:
        ctx.anchor_missing(RL, "HydroNode::emit_core")
        return
    for b in bodies:
        G = None
        for bb, t in b.calls():
            f = t.get("f")
            if not f:
                continue
            nm = f["name"]
            ident = None
            if nm == "push_ident" and len(t["a"]) > 1:
                ident = (guards.const_of(b, t["a"][1]) or "").strip('"')
                if not (ident.endswith("_no_replay") or ident == "multiset_delta"):
                    continue
            elif nm not in ("cross_tick_state_lifetime", "tick_state_lifetime"):
                continue
            if G is None:
                G = guards.Guards(b, {"is_top_level", "is_bounded"})
            g = G.guards_of(bb)
            loc = b.loc(bb)
            k = "hydro_lang|%s|%s@%s" % (fn_key(c, b), ident or nm, _ordinal(b, bb, nm, ident))
            if ident is None:
                ctx.inst(RL, k, sample={"guards": sorted(map(str, g)), "at": loc})
                if nm == "cross_tick_state_lifetime" and ("is_top_level", True) not in g:
                    ctx.violation(RL, k + "|unguarded-static", "a 'static (cross-tick) state lifetime is chosen on a path not decided by is_top_level() == true: tick-scoped state would leak across ticks / "
                                  "top-level selection lost", loc, {"guards": sorted(map(str, g))})
                if nm == "tick_state_lifetime" and ("is_top_level", False) not in g and ("is_top_level", True) not in g and _sibling_of_cross(b, bb):
                    ctx.violation(RL, k + "|tick-lifetime-may-be-top-level", "this 'tick state lifetime is the alternative of a 'static one, but the decision between them is not is_top_level() alone: "
                                  "on some path a top-level input gets state that is reset every tick, so results depend on how inputs are split into ticks", loc, {"guards": sorted(map(str, g))})
                if nm == "tick_state_lifetime" and ("is_top_level", True) in g:
                    ctx.violation(RL, k + "|tick-lifetime-at-top-level", "a 'tick state lifetime is chosen on the is_top_level() == true edge: top-level state would be reset every tick, so results "
                                  "depend on how inputs are split into ticks", loc, {"guards": sorted(map(str, g))})
            else:
                ctx.inst(RN, k, sample={"guards": sorted(map(str, g)), "at": loc})
                need = {("is_top_level", True)} | ({("is_bounded", True)} if ident.endswith("_no_replay") else set())
                if not need <= g:
                    ctx.violation(RN, k + "|selection-condition", "`%s` is emitted on a path that is not decided by %s" % (ident, " && ".join(n + "()" for n, _ in sorted(need))), loc,
                                  {"guards": sorted(map(str, g))})

    watermark_rule(ctx)

    if ctx.tier == "thorough":
        # independent cross-check of the solver by the real type checker: compile-fail witnesses with compiling twins
        import witness
        witness.check(ctx, "C28")


def _ordinal(b, bb, nm, ident):
    """stable ordinal of this call among the same kind of calls in the body (keys must not contain line numbers)"""
    k = 0
    for bb2, t in b.calls():
        f = t.get("f")
        if not f or f["name"] != nm:
            continue
        if ident is not None:
            if (guards.const_of(b, t["a"][1]) or "").strip('"') != ident:
                continue
        if bb2 == bb:
            return k
        k += 1
    return k


NEG = {"<": ">=", "<=": ">", ">": "<=", ">=": "<"}


def watermark_rule(ctx):
    """ReduceKeyedWatermark keeps a map of keys and a current watermark in one fold. Arrival order of (key, watermark) must not matter: a key is rejected on arrival
    exactly when the garbage collection run by the watermark would have removed it. The two predicates live in one generated closure (template text): the arrival
    guard `if k OP1 curr_watermark { return; }` and the collection `map.retain(|k, _| *k OP2 watermark)` must be complements (OP2 == not OP1)."""
    import re
    import synfacts
    R = ctx.rule("C28.watermark", "in the watermarked keyed reduce the arrival guard and the retain predicate are complementary comparisons (the result does not depend on whether a key or the "
                 "watermark arrives first)", floor=1)
    f = "hydro_lang/src/compile/ir/mod.rs"
    d = synfacts.scan([f])
    tpls = [m for v in d.values() for m in v["macros"] if m["macro"] in ("parse_quote", "parse_quote_spanned") and re.search(r"\. retain \(", m["text"]) and "->" in m["text"]]
    if not tpls:
        ctx.anchor_missing(R, "watermarked reduce template (a DFIR template with a `.retain(` collection) in emit_core")
        return
    for i, m in enumerate(tpls):
        t = m["text"]
        key = "hydro_lang|emit_core|ReduceKeyedWatermark#%d" % (i + 1)
        # the key variable is the one bound from the payload: `if let Some((k, v)) = <payload>`
        kv = re.findall(r"if let Some \( \( (\w+) , \w+ \) \) =", t)
        keep = re.findall(r"retain \( \| (\w+) , _ \| \* \1 (<=|>=|<|>) (\w+) \)", t)
        rej = []
        for kvar in kv:
            rej += re.findall(r"if (%s) (<=|>=|<|>) (\w+) \{ return ; \}" % re.escape(kvar), t)
        ctx.inst(R, key, sites=len(rej) + len(keep), sample={"line": m["line"], "arrival_guard": rej, "retain": keep})
        if len(rej) != 1 or len(keep) != 1:
            ctx.violation(R, key + "|unrecognised-form", "cannot read exactly one arrival guard and one retain predicate from the template (%d, %d)" % (len(rej), len(keep)), "%s:%s" % (f, m["line"]))
            continue
        if keep[0][1] != NEG[rej[0][1]]:
            ctx.violation(R, key + "|guards-not-complementary", "a key is rejected on arrival when `k %s watermark` but kept by the collection when `k %s watermark`: a key equal to the watermark "
                          "survives or not depending on whether it arrived before or after the watermark" % (rej[0][1], keep[0][1]), "%s:%s" % (f, m["line"]))


def _sibling_of_cross(b, tb):
    """is the tick_state_lifetime call in block `tb` one arm of a decision whose other arm calls cross_tick_state_lifetime?"""
    idom = b.idoms()
    d = idom.get(tb) if isinstance(idom, dict) else idom[tb]
    seen = 0
    while d is not None and seen < 200:
        seen += 1
        if b.term(d)["k"] == "switch":
            break
        nd = idom.get(d) if isinstance(idom, dict) else idom[d]
        if nd == d:
            return False
        d = nd
    if d is None:
        return False
    from_t = b.reachable(start=tb)
    for cb, t in b.calls():
        f = t.get("f") or {}
        if f.get("name") != "cross_tick_state_lifetime" or b.is_cleanup(cb):
            continue
        if b.dominates(d, cb) and cb not in from_t and tb not in b.reachable(start=cb):
            return True
    return False
