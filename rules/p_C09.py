"""C09 — algebra law checkers (partial: composite checkers are the right conjunctions with the right wiring; no verdict is dropped)."""
import mir
import proto
from framework import fn_key
from mir import op_place, pl_local

LEVEL = "other"
MOD = "lattices::algebra::"

# textbook definitions, in terms of the composite's own parameter positions (0 = items).
# base law instance = (law, tuple of positions passed for its non-`items` parameters)
def _monoid(f, z):
    return {("associativity", (f,)), ("identity", (f, z))}


def _cmonoid(f, z):
    return _monoid(f, z) | {("commutativity", (f,))}


def _semiring(f, g, z, o):
    return _cmonoid(f, z) | _monoid(g, o) | {("absorbing_element", (g, z)), ("left_distributes", (f, g)), ("right_distributes", (f, g))}


ORACLE = {
    "semigroup": {("associativity", (1,))},
    "monoid": _monoid(1, 2),
    "commutative_monoid": _cmonoid(1, 2),
    "group": _monoid(1, 2) | {("inverse", (1, 2, 3))},
    "abelian_group": _monoid(1, 2) | {("inverse", (1, 2, 3)), ("commutativity", (1,))},
    "distributive": {("left_distributes", (1, 2)), ("right_distributes", (1, 2))},
    "semiring": _semiring(1, 2, 3, 4),
    "ring": _semiring(1, 2, 3, 4) | {("inverse", (1, 3, 5))},
    "commutative_ring": _semiring(1, 2, 3, 4) | {("inverse", (1, 3, 5)), ("commutativity", (2,))},
    "integral_domain": _semiring(1, 2, 3, 4) | {("inverse", (1, 3, 5)), ("commutativity", (2,)), ("no_nonzero_zero_divisors", (2, 3))},
    "field": _semiring(1, 2, 3, 4) | {("inverse", (1, 3, 5)), ("commutativity", (2,)), ("nonzero_inverse", (2, 4, 3, 6))},
}
BASE = {"associativity", "identity", "commutativity", "inverse", "absorbing_element", "left_distributes", "right_distributes", "nonzero_inverse",
        "no_nonzero_zero_divisors", "idempotency"}


def param_of(body, org, op, depth=0):
    """which parameter (position, 0-based) does this operand carry? follows refs, copies and clone()"""
    p = op_place(op)
    if p is None or depth > 10:
        return None
    l = pl_local(p)
    if 1 <= l <= body.argc:
        return l - 1
    d = org.single_def(l)
    if d is None:
        return None
    kind, bb, x = d
    if kind == "assign":
        if x["k"] in ("ref", "refmut"):
            return param_of(body, org, {"cp": x["p"]}, depth + 1)
        if x["k"] == "use" or x["k"] == "cast":
            return param_of(body, org, x["ops"][0], depth + 1)
    elif kind == "call" and x["k"] == "call" and x.get("f") and x["f"]["name"] in ("clone", "deref", "borrow") and x["a"]:
        return param_of(body, org, x["a"][0], depth + 1)
    return None


def direct_calls(c, body):
    """[(bb, callee short name, [param position or None per arg])] for calls to algebra checkers"""
    org = proto.Origins(body)
    out = []
    for bb, t in body.calls():
        f = t.get("f")
        if not f or not f["def"].startswith(MOD):
            continue
        name = f["def"][len(MOD):]
        out.append((bb, name, [param_of(body, org, a) for a in t["a"]], t))
    return out


def expand(c, name, argmap, depth=0, seen=()):
    """base-law instances checked by composite `name` when called with argmap (callee position -> top-level position)"""
    if name in BASE:
        return {(name, tuple(argmap.get(i) for i in range(1, max(argmap) + 1)))}
    b = c.bodies.get(MOD + name)
    if b is None or depth > 8 or name in seen:
        return set()
    out = set()
    for bb, callee, args, t in direct_calls(c, b):
        sub = {i: (argmap.get(a) if a is not None else None) for i, a in enumerate(args)}
        out |= expand(c, callee, sub, depth + 1, seen + (name,))
    return out


def run(ctx):
    ctx.explanation = ("The composite law checkers of lattices::algebra are conjunctions of base laws. Decided from the MIR call graph with argument wiring: the transitive set of "
                       "(base law, which operation/element it is applied to) of each composite contains the textbook definition (abstract algebra is the oracle), every "
                       "component verdict is `?`-propagated and Ok(()) is reached only after all components ran. Base laws: the two sides of every equality test are rebuilt from the MIR as terms over "
                       "the operation parameters and the loop variables and compared with the textbook equation (this found the linearity checker testing the anti-homomorphism equation, repaired by a fix: commit).")
    ctx.undecided = "that cartesian_power enumerates every tuple; PartialEq of the carrier; the laws of the shipped semiring applications (value-level)"
    c = mir.load_crate("lattices")
    law_rule(ctx, c)
    R_CONJ = ctx.rule("C09.conj", "each composite checker transitively applies at least the base laws of its textbook definition, to the right operations/elements", floor=11)
    R_ERR = ctx.rule("C09.err", "inside a composite, every component verdict is propagated with `?` and Ok(()) is returned only after every component was called", floor=11)
    for name, want in sorted(ORACLE.items()):
        b = c.bodies.get(MOD + name)
        key = "lattices|algebra::" + name
        if b is None:
            ctx.anchor_missing(R_CONJ, "fn " + MOD + name)
            continue
        got = expand(c, name, {i: i for i in range(0, b.argc)})
        ctx.inst(R_CONJ, key, sites=len(got), sample={"checker": name, "base_laws_applied": sorted("%s%s" % (l, a) for l, a in got)})
        for law, args in sorted(want):
            if (law, args) not in got:
                near = sorted(a for l, a in got if l == law)
                ctx.violation(R_CONJ, "%s|missing:%s%s" % (key, law, list(args)),
                              "`%s` does not (transitively) check `%s` on its parameters at positions %s%s: a structure violating that law is accepted"
                              % (name, law, list(args), (" (it checks %s on %s instead)" % (law, near)) if near else ""), b.loc())
        # ---- err discipline
        calls = direct_calls(c, b)
        ok_blocks = [bb for bb, i, lhs, rv in b.assignments() if lhs == 0 and rv["k"] == "agg" and (rv.get("adt") or {}).get("variant") == "Ok" and not b.is_cleanup(bb)]
        ctx.inst(R_ERR, key, sites=len(calls), sample={"checker": name, "component_calls": [n for _, n, _, _ in calls], "ok_blocks": ok_blocks})
        if not ok_blocks:
            ctx.violation(R_ERR, key + "|no-ok", "composite never returns Ok(())", b.loc())
        for bb, callee, args, t in calls:
            dst = t.get("dst")
            branched = False
            if isinstance(dst, int):
                for bb2, t2 in b.calls():
                    f2 = t2.get("f")
                    if f2 and f2["name"] == "branch" and t2["a"] and op_place(t2["a"][0]) == dst:
                        branched = True
            if dst == 0:
                branched = True
            if not branched:
                ctx.violation(R_ERR, "%s|verdict-dropped:%s" % (key, callee), "the verdict of `%s` is not propagated with `?`: a failed law would be ignored" % callee, b.loc(bb))
            for ob in ok_blocks:
                if not b.all_paths_pass({bb}, {ob})[0]:
                    ctx.violation(R_ERR, "%s|ok-without:%s" % (key, callee), "Ok(()) can be returned without `%s` having been called" % callee, b.loc(ob))


# textbook equations of the base laws, written over the checker's parameters by position (p1 = items) and the loop variables in order of
# first appearance; ('must_eq'|'must_ne', lhs, rhs).  The oracle is abstract algebra, not the current code.
LAWS = {
    "associativity": [("must_eq", "p2(v0,p2(v1,v2))", "p2(p2(v0,v1),v2)")],
    "commutativity": [("must_eq", "p2(v0,v1)", "p2(v1,v0)")],
    "idempotency": [("must_eq", "p2(v0,v0)", "v0")],
    "identity": [("must_eq", "p2(p3,v0)", "v0"), ("must_eq", "p2(v0,p3)", "v0")],
    "left_distributes": [("must_eq", "p3(v0,p2(v1,v2))", "p2(p3(v0,v1),p3(v0,v2))")],
    "right_distributes": [("must_eq", "p3(p2(v0,v1),v2)", "p2(p3(v0,v2),p3(v1,v2))")],
    "absorbing_element": [("must_eq", "p2(v0,p3)", "p3"), ("must_eq", "p2(p3,v0)", "p3")],
    "inverse": [("must_eq", "p2(v0,p4(v0))", "p3"), ("must_eq", "p2(p4(v0),v0)", "p3")],
    "nonzero_inverse": [("must_eq", "p2(v0,p5(v0))", "p3"), ("must_eq", "p2(p5(v0),v0)", "p3")],
    "no_nonzero_zero_divisors": [("must_ne", "p2(v0,v1)", "p3"), ("must_ne", "p2(v1,v0)", "p3")],
    "linearity": [("must_eq", "p4(p2(v0,v1))", "p3(p4(v0),p4(v1))")],
    "bilinearity": [("must_eq", "p6(p3(v0,v1),v2)", "p5(p6(v0,v2),p6(v1,v2))"), ("must_eq", "p6(v0,p4(v2,v3))", "p5(p6(v0,v2),p6(v0,v3))")],
}


def law_rule(ctx, c):
    """base law checkers test the textbook equation, on loop variables that range over the carrier"""
    import lawterms
    R = ctx.rule("C09.law", "each base law checker compares exactly the two sides of its textbook equation (terms rebuilt from the MIR) and returns Err exactly on the violating outcome", floor=12)
    for name, want in sorted(LAWS.items()):
        b = c.bodies.get(MOD + name)
        key = "lattices|algebra::" + name
        if b is None:
            ctx.anchor_missing(R, "fn " + MOD + name)
            continue
        eqs, T = lawterms.equations(b)
        got = [(r, l, rr) for r, l, rr, _bb in eqs if r != "guard"]
        ctx.inst(R, key, sites=len(eqs), sample={"equations": [(r, l, rr) for r, l, rr, _ in eqs]})

        def norm(e):
            r, l, rr = e
            return (r,) + tuple(sorted((l, rr)))
        gs = sorted(norm(e) for e in got)
        ws = sorted(norm(e) for e in want)
        if gs != ws:
            ctx.violation(R, key + "|wrong-equation", "`%s` tests %s but its law is %s" % (name, ["%s: %s vs %s" % e for e in got], ["%s: %s vs %s" % e for e in want]), b.loc())
        # loop variables range over the carrier: every iterator that yields a loop variable is built from the `items` parameter(s)
        for (nl, idx), v in sorted(T.loopvars.items(), key=lambda x: x[1]):
            if not _iter_from_items(b, nl):
                ctx.violation(R, key + "|carrier:" + v, "loop variable %s of `%s` does not range over the carrier passed in" % (v, name), b.loc())


def _iter_from_items(b, next_result_local, depth=0):
    """the Option returned by next() comes from an iterator that was built (cartesian_power / into_iter / iter) from a slice/array parameter"""
    work = [next_result_local]
    seen = set()
    while work:
        l = work.pop()
        if l in seen:
            continue
        seen.add(l)
        if 1 <= l <= b.argc:
            return "[" in b.locals[l]
        for bb, idx, rv in b.defs_of(l):
            if idx == "term":
                if rv["k"] == "call":
                    for a in rv["a"][:1]:
                        p = op_place(a)
                        if p is not None:
                            work.append(pl_local(p))
            else:
                for o in rv.get("ops", []):
                    p = op_place(o)
                    if p is not None:
                        work.append(pl_local(p))
                if "p" in rv:
                    work.append(pl_local(rv["p"]))
    return False
