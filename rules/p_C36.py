"""C36 — simulator decisions are sound (partial: prefix-only removal for ordered hooks; removed items reach the release slot; the release slot is sent)."""
import mir
from framework import fn_key
from mir import op_place, pl_local, pl_fields, pl_str

LEVEL = "other"

REMOVALS = {"drain", "remove", "pop_front", "pop_back", "swap_remove_back", "swap_remove_front", "split_off", "truncate", "clear", "retain", "retain_mut"}
# hooks whose releases must be an in-order prefix of the pending queue / never go back to an older snapshot
SNAPSHOT_HOOKS = ("SingletonHook", "KeyedSingletonHook")
# fields of a hook that legitimately receive values taken out of the pending queue
SINK_FIELDS = {"to_release", "release_sources"}
SNAPSHOT_SINK_FIELDS = {"skipped_states"}     # snapshot hooks may skip intermediate versions (documented: "Drop earlier items")


def hook_impls(c):
    out = []
    for tr in ("sim::runtime::SimHook", "sim::runtime::SimInlineHook"):
        for i in c.impls_of_trait(tr):
            out.append(i)
    return out


def short(ty):
    return ty.replace("hydro_lang::sim::runtime::", "").replace("hydro_lang::live_collections::stream::", "")


def bodies_of(c, impl, method):
    root = c.bodies.get(impl["def"] + "::" + method)
    if root is None:
        return []
    out = [root]
    for n, b in c.bodies.items():
        if n.startswith(root.def_path + "::{closure") and b.kind != "Promoted":
            out.append(b)
    return out


def is_vecdeque_call(f):
    return f is not None and "vec_deque::" in f.get("def", "") and "VecDeque" in f.get("impl_self", "VecDeque")


def range_starts_at_zero(b, op):
    """is the range operand `0..n` / `..n` / `0..=n`?"""
    p = op_place(op)
    if p is None:
        return False
    l = pl_local(p)
    ty = b.locals[l]
    if "RangeTo<" in ty or "RangeToInclusive<" in ty:
        return True
    if "RangeFull" in ty:
        return True
    for bb, idx, rv in b.defs_of(l):
        if idx == "term":
            f = rv.get("f") or {}
            # RangeInclusive::new(start, end)
            if f.get("name") == "new" and "range" in f.get("def", "") and rv["a"] and str(mir.op_const(rv["a"][0])).startswith("0"):
                continue
            return False
        if rv["k"] == "agg" and rv["ops"] and str(mir.op_const(rv["ops"][0])).startswith("0"):
            continue
        return False
    return True


def derives_from_self_field(b, p, depth=0):
    """names of `self` fields the place/reference is (transitively) derived from"""
    if p is None or depth > 40:
        return set()
    l = pl_local(p)
    if l == 1 and b.def_path == b.root:
        return set(pl_fields(p)[:1])
    if l == 1 and b.def_path != b.root:
        return set()
    out = set()
    for bb, idx, rv in b.defs_of(l):
        if idx == "term":
            if rv.get("a"):
                out |= derives_from_self_field(b, op_place(rv["a"][0]), depth + 1)
        elif rv["k"] in ("ref", "refmut"):
            out |= derives_from_self_field(b, rv["p"], depth + 1)
        elif rv["k"] == "use":
            out |= derives_from_self_field(b, op_place(rv["ops"][0]), depth + 1)
    return out


def taint_analysis(b, seeds, sink_fields):
    """forward may-taint of values taken out of the pending queue. seeds: set of locals. Returns (sunk: bool per seed reached a sink, dropped: [(bb, local)])"""
    tainted = set(seeds)
    sunk = set()
    changed = True
    it = 0
    while changed and it < 50:
        changed = False
        it += 1
        for bb in range(b.n):
            if b.is_cleanup(bb):
                continue
            for s in b.stmts(bb):
                if "lhs" not in s:
                    continue
                rv = s["rv"]
                ops = rv.get("ops", [])
                src_t = any(op_place(o) is not None and pl_local(op_place(o)) in tainted for o in ops)
                if rv["k"] in ("ref", "refmut") and pl_local(rv["p"]) in tainted:
                    src_t = True
                if not src_t:
                    continue
                lhs = s["lhs"]
                if isinstance(lhs, int):
                    if lhs not in tainted:
                        tainted.add(lhs)
                        changed = True
                else:
                    if pl_local(lhs) == 1 and b.def_path == b.root and set(pl_fields(lhs)[:1]) & sink_fields:
                        sunk.add("field:" + pl_fields(lhs)[0])
                    elif pl_local(lhs) != 1:
                        # a write through a pointer / reference: whatever the pointer was made from now holds the value
                        for r_ in _alias_roots(b, pl_local(lhs)):
                            if r_ not in tainted:
                                tainted.add(r_)
                                changed = True
            t = b.term(bb)
            if t["k"] == "call":
                args = t.get("a", [])
                targ = [i for i, a in enumerate(args) if op_place(a) is not None and pl_local(op_place(a)) in tainted]
                if not targ:
                    continue
                f = t.get("f") or {}
                name = f.get("name", "")
                # container insertion: the receiver absorbs the value
                if name in ("push", "push_back", "push_front", "extend", "insert", "append", "extend_from_slice") and targ != [0] and args:
                    recv = op_place(args[0])
                    flds = derives_from_self_field(b, recv)
                    if flds & sink_fields:
                        sunk.add("field:" + sorted(flds & sink_fields)[0])
                    elif recv is not None:
                        # a local collection: follow the reference back to the owning local
                        base = _owner_local(b, recv)
                        if base is not None and base not in tainted:
                            tainted.add(base)
                            changed = True
                    continue
                if name == "try_send":
                    sunk.add("sent")
                    continue
                dst = t.get("dst")
                if dst is not None and pl_local(dst) not in tainted:
                    tainted.add(pl_local(dst))
                    changed = True
    dropped = []
    for bb in range(b.n):
        if b.is_cleanup(bb):
            continue
        t = b.term(bb)
        if t["k"] == "drop" and isinstance(t["p"], int) and t["p"] in tainted:
            dropped.append((bb, t["p"]))
    return tainted, sunk, dropped


def _alias_roots(b, l, depth=0, seen=None):
    seen = seen if seen is not None else set()
    if l in seen or depth > 8:
        return seen
    seen.add(l)
    for bb, idx, rv in b.defs_of(l):
        if idx == "term":
            continue
        if rv["k"] in ("ref", "refmut", "rawptr"):
            _alias_roots(b, pl_local(rv["p"]), depth + 1, seen)
        elif rv["k"] in ("use", "cast"):
            pp = op_place(rv["ops"][0])
            if pp is not None and pl_local(pp) != 1:
                _alias_roots(b, pl_local(pp), depth + 1, seen)
    return seen


def _owner_local(b, p, depth=0):
    if p is None or depth > 8:
        return None
    l = pl_local(p)
    ty = b.locals[l]
    if not ty.startswith("&"):
        return l
    for bb, idx, rv in b.defs_of(l):
        if idx == "term":
            if rv.get("a"):
                return _owner_local(b, op_place(rv["a"][0]), depth + 1)
        elif rv["k"] in ("ref", "refmut"):
            return _owner_local(b, rv["p"], depth + 1)
        elif rv["k"] == "use":
            return _owner_local(b, op_place(rv["ops"][0]), depth + 1)
    return None


def iter_exhausted_only(b, local):
    """`local` is an iterator driven by a loop: is `next` called on it, and is the loop left only through the None arm?"""
    for bb, t in b.calls():
        f = t.get("f") or {}
        if f.get("name") != "next" or not t.get("a"):
            continue
        if _owner_local(b, op_place(t["a"][0])) != local:
            continue
        nxt = t.get("t")
        if nxt is None:
            continue
        sw = b.term(nxt)
        if sw["k"] != "switch":
            continue
        some = [tgt for v, tgt in sw["ts"] if int(v) == 1]
        if not some:
            continue
        rets = set(b.returns())
        ok, _w = b.all_paths_pass({bb}, rets, start=some[0])
        return ok
    return False


def run(ctx):
    ctx.explanation = ("The simulator's hooks move items from a pending queue into a release slot (`autonomous_decision`) and from the slot to the tick's channel (`release_decision`). Three clauses of "
                       "'decisions are sound' are visible in the shape of that code for every input: (1) hooks for totally ordered inputs and snapshot hooks only ever remove from the front of "
                       "the pending queue (pop_front, or drain of a range starting at 0) - an in-order prefix / never an older snapshot after a newer one; unordered hooks may remove by index; "
                       "(2) every value taken out of a pending queue flows, by moves through iterator adaptors and collections, into the release slot (or, for snapshot hooks, the documented "
                       "skipped-states list) and is never dropped on a normal path - no pending item is lost; (3) release_decision sends the whole slot: directly, or from a loop that is only "
                       "left when the slot is exhausted and sends on every iteration. 'Released twice' is excluded by ownership for the stream hooks (T is not Clone).")
    ctx.undecided = ("the sizes chosen by the generator (prefix length, subset), per-key independence of the choices, monotonicity of re-released snapshots beyond front-only removal, "
                     "and that every scheduled tick makes progress (run_hooks' forced non-trivial decision) are run-time value properties")
    c = mir.load_crate("hydro_lang")
    impls = hook_impls(c)
    R1 = ctx.rule("C36.front", "ordered-stream and snapshot hooks remove from the pending queue only at the front (pop_front / drain from 0); every VecDeque removal in a hook is classified", floor=6)
    R2 = ctx.rule("C36.kept", "every value a hook takes out of a pending queue reaches the hook's release slot and is not dropped on a normal path", floor=10)
    R4 = ctx.rule("C36.lastreleased", "a snapshot hook overwrites `last_released` with every newly released snapshot (a re-release can never return an older version)", floor=2)
    R3 = ctx.rule("C36.released", "release_decision sends the complete release slot on the path where a decision exists", floor=14)
    if len(impls) < 14:
        ctx.anchor_missing(R1, "SimHook / SimInlineHook impls (%d found)" % len(impls))
        return
    for imp in sorted(impls, key=lambda i: i["def"]):
        sty = short(imp.get("self", ""))
        ordered = "TotalOrder" in sty or any(sty.startswith(h + "<") for h in SNAPSHOT_HOOKS)
        snapshot = any(sty.startswith(h + "<") for h in SNAPSHOT_HOOKS)
        key = "hydro_lang|" + sty
        bodies = bodies_of(c, imp, "autonomous_decision")
        if not bodies:
            ctx.anchor_missing(R2, "autonomous_decision of " + sty)
            continue
        # ---- R1
        removals = []
        for b in bodies:
            for bb, t in b.calls():
                f = t.get("f") or {}
                if f.get("name") in REMOVALS and "vec_deque::" in f.get("def", ""):
                    removals.append((b, bb, t))
        if removals:
            ctx.inst(R1, key, sites=len(removals), sample={"ordered": ordered, "removals": [t["f"]["name"] for _b, _bb, t in removals]})
        for b, bb, t in removals:
            name = t["f"]["name"]
            if not ordered:
                continue
            if name == "pop_front":
                continue
            if name == "drain" and len(t["a"]) >= 2 and range_starts_at_zero(b, t["a"][1]):
                continue
            ctx.violation(R1, key + "|not-front|" + name, "%s removes from its pending queue with `%s`%s: the released batch is no longer an in-order prefix (or a snapshot older than a released one "
                          "can follow)" % (sty, name, " over a range that does not start at 0" if name == "drain" else ""), b.loc(bb))
        # ---- R2: seeds = results of removals from the pending queue / of taking the whole pending batch
        sink = set(SINK_FIELDS) | (SNAPSHOT_SINK_FIELDS if snapshot else set())
        nseeds = 0
        # in-tick order hooks (SimInlineHook) take a whole batch and regroup it through temporary maps that are legitimately dropped when empty: R2 is
        # stated for the hooks that own a persistent pending queue
        for b in (bodies if imp.get("trait", "").endswith("::SimHook") else []):
            seeds = {}
            for bb, t in b.calls():
                f = t.get("f") or {}
                nm = f.get("name")
                dst = t.get("dst")
                if dst is None or not t.get("a"):
                    continue
                recv_fields = derives_from_self_field(b, op_place(t["a"][0]))
                from_input = bool(recv_fields) and not (recv_fields & (sink | {"last_released", "output"}))
                if nm in ("drain", "remove", "pop_front", "pop_back", "swap_remove_back", "swap_remove_front", "split_off") and ("vec_deque::" in f.get("def", "") or "vec::" in f.get("def", "")):
                    if from_input or b.def_path != b.root:
                        seeds[pl_local(dst)] = (bb, nm)
                elif nm == "take" and "option::" in f.get("def", "") and from_input:
                    seeds[pl_local(dst)] = (bb, "take")
            for sl, (sbb, nm) in sorted(seeds.items()):
                nseeds += 1
                tainted, sunk, dropped = taint_analysis(b, {sl}, sink)
                k2 = "%s|%s@%s" % (key, nm, fn_key(c, b).split("::")[-1] if b.def_path != b.root else "body")
                ctx.inst(R2, k2 + "#%d" % nseeds, sites=len(tainted), sample={"from": nm, "reaches": sorted(sunk), "line": b.term(sbb).get("ln")})
                for dbb, dl in dropped:
                    if iter_exhausted_only(b, dl):
                        continue
                    ctx.violation(R2, k2 + "|dropped", "a value taken out of the pending queue with `%s` (or something built from it: %s) is dropped on a normal path instead of reaching the "
                                  "release slot: a pending item is lost" % (nm, b.locals[dl][:80]), b.loc(dbb))
                if not sunk and b.def_path == b.root:
                    ctx.violation(R2, k2 + "|never-released", "the value taken out of the pending queue with `%s` never reaches %s" % (nm, sorted(sink)), b.loc(sbb))
        # ---- R4: snapshot hooks remember what they released
        if snapshot:
            check_last_released(ctx, R4, c, imp, key, bodies)
        # ---- R3
        rb = c.bodies.get(imp["def"] + "::release_decision")
        if rb is None:
            ctx.anchor_missing(R3, "release_decision of " + sty)
            continue
        check_release(ctx, R3, c, rb, key)


def check_release(ctx, R3, c, b, key):
    takes = []
    for bb, t in b.calls():
        f = t.get("f") or {}
        if f.get("name") == "take" and "option::" in f.get("def", "") and t.get("a") and "to_release" in derives_from_self_field(b, op_place(t["a"][0])):
            takes.append((bb, t))
    sends = [bb for bb, t in b.calls() if (t.get("f") or {}).get("name") == "try_send"]
    ctx.inst(R3, key, sites=len(sends), sample={"takes": len(takes), "sends": len(sends)})
    if len(takes) != 1:
        ctx.violation(R3, key + "|no-slot-take", "release_decision does not take `to_release` exactly once (%d)" % len(takes), b.loc())
        return
    if not sends:
        ctx.violation(R3, key + "|never-sends", "release_decision never sends on the hook's output channel", b.loc())
        return
    tbb, tt = takes[0]
    # the Some arm of the match on the taken slot
    some = None
    cur = tt.get("t")
    seen = set()
    while cur is not None and cur not in seen:
        seen.add(cur)
        sw = b.term(cur)
        if sw["k"] == "switch":
            s1 = [tgt for v, tgt in sw["ts"] if int(v) == 1]
            some = s1[0] if s1 else sw["o"]
            break
        nx = b.succs(cur)
        cur = nx[0] if len(nx) == 1 else None
    if some is None:
        ctx.violation(R3, key + "|no-match-on-slot", "cannot find the match on the taken release slot", b.loc(tbb))
        return
    rets = set(b.returns())
    # loop form: an IntoIter over the slot drives the sends
    loop_next = None
    for bb, t in b.calls():
        f = t.get("f") or {}
        if f.get("name") == "next" and bb in b.reachable(some) and b.in_cycle(bb):
            nxt = t.get("t")
            if nxt is not None and b.term(nxt)["k"] == "switch":
                sw = b.term(nxt)
                s1 = [tgt for v, tgt in sw["ts"] if int(v) == 1]
                if s1 and any(s_ in b.reachable(s1[0]) and bb in b.reachable(s_) for s_ in sends):
                    loop_next = (bb, s1[0])
                    break
    if loop_next is not None:
        nbb, sarm = loop_next
        ok1, w1 = b.all_paths_pass(set(sends), {nbb} | rets, start=sarm)
        ok2, w2 = b.all_paths_pass({nbb}, rets, start=sarm)
        if not ok1:
            ctx.violation(R3, key + "|item-not-sent", "an iteration of the release loop can finish without sending its item", b.loc(sarm))
        if not ok2:
            ctx.violation(R3, key + "|loop-left-early", "the release loop can be left before the slot is exhausted", b.loc(w2 if w2 is not None else sarm))
        ok3, _w = b.all_paths_pass({nbb}, rets, start=some)
        if not ok3:
            ctx.violation(R3, key + "|loop-skipped", "a path with a decision returns without entering the release loop", b.loc(some))
    else:
        ok, w = b.all_paths_pass(set(sends), rets, start=some)
        if not ok:
            ctx.violation(R3, key + "|slot-not-sent", "a path on which a decision exists returns without sending the release slot", b.loc(w if w is not None else some))


def _overwrites_last_released(b):
    """blocks of `b` (root body of a method) that overwrite self.last_released: a plain assignment to the field, or insert/replace on something derived from it.
    `get_or_insert*` keeps an existing value and does not count."""
    out = []
    for bb in range(b.n):
        if b.is_cleanup(bb):
            continue
        for st in b.stmts(bb):
            if "lhs" in st and not isinstance(st["lhs"], int) and pl_local(st["lhs"]) == 1 and pl_fields(st["lhs"])[:1] == ["last_released"] and len(pl_fields(st["lhs"])) == 1:
                out.append(bb)
        t = b.term(bb)
        if t["k"] == "call":
            f = t.get("f") or {}
            if f.get("name") in ("insert", "replace") and t.get("a") and "last_released" in derives_from_self_field(b, op_place(t["a"][0])):
                out.append(bb)
    return sorted(set(out))


def check_last_released(ctx, R4, c, imp, key, dec_bodies):
    rb = c.bodies.get(imp["def"] + "::release_decision")
    dec = dec_bodies[0]
    w_rel = _overwrites_last_released(rb) if rb is not None else []
    w_dec = _overwrites_last_released(dec)
    ctx.inst(R4, key, sites=len(w_rel) + len(w_dec), sample={"overwrites_in_release_decision": len(w_rel), "overwrites_in_autonomous_decision": len(w_dec)})
    if not w_rel and not w_dec:
        ctx.violation(R4, key + "|never-overwritten", "`last_released` is never overwritten with a released snapshot (only initialised): a later 'unchanged' re-release returns the first version "
                      "although newer ones were released in between", (rb or dec).loc())
        return
    if w_rel:
        # every path on which a decision is released passes an overwrite
        takes = [bb for bb, t in rb.calls() if (t.get("f") or {}).get("name") == "take" and t.get("a") and "to_release" in derives_from_self_field(rb, op_place(t["a"][0]))]
        if takes:
            nxt = rb.term(takes[0]).get("t")
            some = None
            seen = set()
            while nxt is not None and nxt not in seen:
                seen.add(nxt)
                sw = rb.term(nxt)
                if sw["k"] == "switch":
                    s1 = [tg for v, tg in sw["ts"] if int(v) == 1]
                    some = s1[0] if s1 else sw["o"]
                    break
                sc = rb.succs(nxt)
                nxt = sc[0] if len(sc) == 1 else None
            if some is not None:
                ok, w = rb.all_paths_pass(set(w_rel), set(rb.returns()), start=some)
                if not ok:
                    ctx.violation(R4, key + "|released-without-remembering", "a path of release_decision sends a snapshot without overwriting `last_released`", rb.loc(w if w is not None else some))
    if w_dec:
        # every newly chosen snapshot (pop_front) is remembered before the next iteration / return
        pops = [bb for bb, t in dec.calls() if (t.get("f") or {}).get("name") == "pop_front" and "vec_deque::" in (t.get("f") or {}).get("def", "")]
        for pb in pops:
            exits = set(dec.returns())
            # loop headers: blocks that dominate pb and are reachable from it
            heads = set(h for h in range(dec.n) if dec.term(h)["k"] == "call" and (dec.term(h).get("f") or {}).get("name") == "next" and pb in dec.reachable(start=h) and h in dec.reachable(start=pb))
            ok, w = dec.all_paths_pass(set(w_dec), exits | heads, start=dec.term(pb).get("t") if dec.term(pb).get("t") is not None else pb)
            if not ok:
                ctx.violation(R4, key + "|chosen-without-remembering", "a newly chosen snapshot is put into the release slot without being recorded in `last_released`", dec.loc(pb))
