"""C18 — partitioning is well-formed (partial: delays and barriers reach the partitioner and the marks)."""
import mir
import proto
from framework import fn_key
from mir import op_place, pl_local, pl_projs
from p_C17 import variant_target, switch_targets_on, root_copy

LEVEL = "other"
MOD = "dfir_lang::graph::flat_to_partitioned::"


def calls_named(b, names, recv_contains=None):
    out = []
    org = None
    for bb, t in b.calls():
        f = t.get("f")
        if f and f["name"] in names:
            if recv_contains is not None:
                if org is None:
                    org = proto.Origins(b)
                p = op_place(t["a"][0]) if t["a"] else None
                if p is None:
                    continue
                root, path = org.origin_place(p)
                nm = b.var_names().get(root, "")
                if recv_contains not in nm and not any(recv_contains in x for x in path):
                    continue
            out.append(bb)
    return out


def backward_sources(b, crate, local, depth=0, seen=None):
    """parameter locals and closure defs that the value of `local` is built from (through call args, aggregates, refs, moves)"""
    if seen is None:
        seen = set()
    params, closures = set(), set()
    if local in seen or depth > 14:
        return params, closures
    seen.add(local)
    if 1 <= local <= b.argc:
        params.add(local)
    ty = b.locals[local]
    if ty.startswith("closure#"):
        closures.add(ty[8:])
    for bb, idx, x in b.defs_of(local):
        ops = []
        if idx == "term":
            if x["k"] == "call":
                ops = x["a"]
        else:
            ops = list(x.get("ops", []))
            if "p" in x:
                ops.append({"cp": x["p"]})
        for o in ops:
            p = op_place(o)
            if p is not None:
                ps, cs = backward_sources(b, crate, pl_local(p), depth + 1, seen)
                params |= ps
                closures |= cs
    return params, closures


def closure_calls(crate, cdef, names, depth=0):
    cb = crate.bodies.get(cdef)
    if cb is None or depth > 3:
        return False
    for bb, t in cb.calls():
        if t.get("f") and t["f"]["name"] in names:
            return True
    for sub in crate.closures_of(cb.root):
        if sub.def_path.startswith(cdef + "::") and closure_calls(crate, sub.def_path, names, depth + 1):
            return True
    return False


def run(ctx):
    ctx.explanation = ("Structural rules on flat_to_partitioned.rs (MIR, all paths): an edge whose destination declares an input delay is recorded both as a barrier pair and as a "
                       "tick edge on exactly the same paths; the enemies handed to the merger are fed by the barrier pairs, the access-group pairs and every handoff-reference "
                       "producer; a merge is attempted only inside one loop context; when a delayed edge is split by a handoff its delay moves to the new out-edge, and the delay of "
                       "a handoff's out-edge reaches set_handoff_delay_type.")
    ctx.undecided = "'single pull-then-push pipeline' shape of every subgraph, toposort validity for every graph (the code asserts it at run time)"
    c = mir.load_crate("dfir_lang")
    feb = c.bodies.get(MOD + "find_edge_barriers")
    fsu = c.bodies.get(MOD + "find_subgraph_unionfind")
    ms = c.bodies.get(MOD + "make_subgraphs")
    mtb = c.bodies.get(MOD + "mark_tick_boundary_handoffs")
    R_B = ctx.rule("C18.barrier", "find_edge_barriers: on the Some edge of input_delaytype_fn both barrier_pairs.push and tick_edges.insert are executed on every path", floor=1)
    R_E = ctx.rule("C18.enemies", "the enemies iterator given to SubgraphMerge::new is built from edge_barrier_pairs, access_group_pairs and node_handoff_references", floor=1)
    R_L = ctx.rule("C18.looponly", "try_merge is attempted only when source and destination are in the same loop context", floor=1)
    R_M = ctx.rule("C18.mark", "a split delayed edge passes its delay to the handoff's out-edge; mark_tick_boundary_handoffs feeds set_handoff_delay_type from tick_edges", floor=2)
    if not all([feb, fsu, ms, mtb]):
        ctx.anchor_missing(R_B, "find_edge_barriers / find_subgraph_unionfind / make_subgraphs / mark_tick_boundary_handoffs")
        return
    # ---- barrier
    key = "dfir_lang|find_edge_barriers"
    indirect = [(bb, t["dst"]) for bb, t in feb.calls() if not t.get("f") and isinstance(t.get("dst"), int) and "DelayType" in feb.locals[t["dst"]]]
    pushes = calls_named(feb, {"push"})
    inserts = [bb for bb, t in feb.calls() if t.get("f") and t["f"]["name"] == "insert" and "secondary" in t["f"]["def"]]
    nexts = [bb for bb, t in feb.calls() if t.get("f") and t["f"]["name"] == "next"]
    ctx.inst(R_B, key, sites=len(pushes) + len(inserts), sample={"delaytype_call_blocks": [b for b, _ in indirect], "push_blocks": pushes, "insert_blocks": inserts})
    if not indirect or not pushes or not inserts or not nexts:
        ctx.anchor_missing(R_B, "input_delaytype_fn call / push / insert / loop in find_edge_barriers")
    for ib, dst in indirect:
        some_t = variant_target(feb, dst, "Some")
        exits = set(nexts) | set(feb.returns())
        for st in some_t:
            for what, blocks in (("barrier_pairs.push", pushes), ("tick_edges.insert", inserts)):
                ok, _ = feb.all_paths_pass(set(blocks), exits, start=st)
                if not ok:
                    ctx.violation(R_B, "%s|delay-not-recorded:%s" % (key, what), "an input that declares a delay reaches the next edge without `%s`: the delayed edge would be "
                                  "merged into a subgraph / not excluded from the same-tick order" % what, feb.loc(ib))
        none_t = variant_target(feb, dst, "None")
        for nt in none_t:
            reach = feb.reachable(start=nt, avoid=set(nexts))
            if set(inserts) & reach:
                ctx.violation(R_B, key + "|non-delayed-marked", "an input that declares no delay is recorded as a tick edge", feb.loc(ib))
    enemies_rule(ctx, c, fsu, R_E)
    # ---- looponly
    merges = calls_named(fsu, {"try_merge"})
    loops = [(bb, t["dst"]) for bb, t in fsu.calls() if t.get("f") and t["f"]["name"] == "node_loop" and isinstance(t.get("dst"), int)]
    cmps = []
    org = proto.Origins(fsu)
    loop_results = set(d for _, d in loops)
    for bb, t in fsu.calls():
        f = t.get("f")
        if f and f["name"] in ("ne", "eq") and f.get("trait") == "core::cmp::PartialEq" and isinstance(t.get("dst"), int) and len(t["a"]) == 2:
            srcs = [root_copy(fsu, pl_local(op_place(a))) for a in t["a"] if op_place(a) is not None]
            if len(srcs) == 2 and all(s in loop_results for s in srcs):
                cmps.append((bb, t["dst"], f["name"]))
    ctx.inst(R_L, key, sites=len(merges), sample={"try_merge_blocks": merges, "loop_compare_blocks": [b for b, _, _ in cmps]})
    if not merges or not cmps:
        ctx.anchor_missing(R_L, "try_merge / node_loop comparison")
    for mb in merges:
        ok = False
        for cb, d, nm in cmps:
            for sb, f_t, t_t in switch_targets_on(fsu, d):
                same = f_t if nm == "ne" else t_t
                diff = t_t if nm == "ne" else f_t
                if same is not None and fsu.dominates(same, mb) and not fsu.dominates(diff, mb):
                    ok = True
        if not ok:
            ctx.violation(R_L, key + "|merge-across-loops", "try_merge is reachable without the same-loop test having succeeded: operators of different loop contexts "
                          "could be fused into one subgraph", fsu.loc(mb))
    # ---- mark
    key = "dfir_lang|make_subgraphs"
    iin = calls_named(ms, {"insert_intermediate_node"})
    removes = [(bb, t["dst"]) for bb, t in ms.calls() if t.get("f") and t["f"]["name"] == "remove" and "secondary" in t["f"]["def"] and isinstance(t.get("dst"), int)]
    ins = [bb for bb, t in ms.calls() if t.get("f") and t["f"]["name"] == "insert" and "secondary" in t["f"]["def"]]
    ctx.inst(R_M, key, sites=len(iin), sample={"insert_intermediate_node": iin, "tick_edges.remove": [b for b, _ in removes], "tick_edges.insert": ins})
    if not iin or not removes or not ins:
        ctx.anchor_missing(R_M, "insert_intermediate_node / tick_edges.remove / tick_edges.insert in make_subgraphs")
    for ib in iin:
        nxt = [bb for bb, t in ms.calls() if t.get("f") and t["f"]["name"] == "next"]
        exits = set(nxt) | set(ms.returns())
        for s in ms.succs(ib):
            ok, _ = ms.all_paths_pass(set(b for b, _ in removes), exits, start=s)
            if not ok:
                ctx.violation(R_M, key + "|delay-not-moved", "after a handoff is inserted on an edge a path continues without looking the edge up in tick_edges: a delayed "
                              "edge would lose its delay mark", ms.loc(ib))
        for rb, d in removes:
            for st in variant_target(ms, d, "Some"):
                ok, _ = ms.all_paths_pass(set(ins), exits, start=st)
                if not ok:
                    ctx.violation(R_M, key + "|delay-dropped", "the delay removed for the split edge is not re-inserted for the handoff's out-edge", ms.loc(rb))
    key = "dfir_lang|mark_tick_boundary_handoffs"
    sets = calls_named(mtb, {"set_handoff_delay_type"})
    uses_tick = False
    for cb in c.closures_of(mtb.def_path):
        for bb, t in cb.calls():
            if t.get("f") and t["f"]["name"] == "get" and "secondary" in t["f"]["def"]:
                uses_tick = True
    ctx.inst(R_M, key, sites=len(sets), sample={"set_handoff_delay_type_blocks": sets, "closure_reads_tick_edges": uses_tick})
    if not sets:
        ctx.violation(R_M, key + "|no-mark", "mark_tick_boundary_handoffs never calls set_handoff_delay_type", mtb.loc())
    if not uses_tick:
        ctx.violation(R_M, key + "|mark-not-from-tick-edges", "the delay type given to handoffs is not looked up in tick_edges", mtb.loc())

    # access groups of one reference target are chained and emitted unconditionally (shared with C19); delays of nested-loop consumers are remapped
    # to the matching loop delay with laziness preserved (shared with C26)
    import p_C19
    import p_C26
    p_C19.accessgroups_rule(ctx, mir.load_crate("dfir_lang"), rid="C18.accessgroups")
    p_C26.remap_rule(ctx, mir.load_crate("dfir_lang"), "C18.remap")


def enemies_rule(ctx, c, fsu, R_E):
    """the no-merge (enemy) set handed to the merger is fed by barrier pairs, access-group pairs and handoff-reference producers"""
    key = "dfir_lang|find_subgraph_unionfind"
    news = [(bb, t) for bb, t in fsu.calls() if t.get("f") and t["f"]["name"] == "new" and "SubgraphMerge" in t["f"].get("impl_self", "")]
    names = fsu.var_names()
    argname = {l: names.get(l) for l in range(1, fsu.argc + 1)}
    ctx.inst(R_E, key, sites=len(news), sample={"new_call_blocks": [bb for bb, _ in news], "params": argname})
    if not news:
        ctx.anchor_missing(R_E, "SubgraphMerge::new call")
    for bb, t in news:
        if len(t["a"]) < 3:
            continue
        p = op_place(t["a"][2])
        params, closures = backward_sources(fsu, c, pl_local(p)) if p is not None else (set(), set())
        have = set(argname.get(x) for x in params)
        for need in ("edge_barrier_pairs", "access_group_pairs"):
            if need not in have:
                ctx.violation(R_E, "%s|enemies-missing:%s" % (key, need), "the no-merge set handed to the merger is not fed by `%s`" % need, fsu.loc(bb))
        if not any(closure_calls(c, cd, {"node_handoff_references"}) for cd in closures):
            ctx.violation(R_E, key + "|enemies-missing:handoff-references", "the no-merge set is not fed by the handoff-reference producers", fsu.loc(bb))
        # preds closure reads all_preds
        pp = op_place(t["a"][1])
        pparams, pclos = backward_sources(fsu, c, pl_local(pp)) if pp is not None else (set(), set())
