"""C11 — pull combinators under pending (partial: no upstream item is lost; fuse typestate; Pending only when an upstream pended)."""
import mir
import linear
from framework import fn_key
from mir import op_place, pl_local, pl_projs

LEVEL = "other"


def variant_edge_targets(body, src_locals, variant):
    """targets of the `variant` edge of the *match* switches on discriminant(<local in src_locals>).
    Switches reachable from an earlier switch on the same local are drop-elaboration ladders and are ignored."""
    cands = {}   # src local -> list of (switch block, [targets for variant])
    for sb in range(body.n):
        if body.is_cleanup(sb):
            continue
        ts = body.term(sb)
        if ts["k"] != "switch":
            continue
        dp = op_place(ts["d"])
        if not isinstance(dp, int):
            continue
        for db, idx, rv in body.defs_of(dp):
            if idx == "term" or rv["k"] != "discr":
                continue
            p = rv["p"]
            if not (pl_local(p) in src_locals):
                continue
            variants = {v: n for v, n in (rv.get("variants") or [])}
            tg = [tgt for val, tgt in ts["ts"] if variants.get(val) == variant]
            rest = [n for v, n in variants.items() if v not in [x for x, _ in ts["ts"]]]
            if rest == [variant]:
                tg.append(ts["o"])
            # a target shared with another variant's edge does not witness `variant`
            other = set(tgt for val, tgt in ts["ts"] if variants.get(val) != variant)
            if rest and rest != [variant]:
                other.add(ts["o"])
            tg = [t0 for t0 in tg if t0 not in other]
            cands.setdefault((pl_local(p), tuple(pl_projs(p))), []).append((sb, tg))
    out = set()
    for key, lst in cands.items():
        blocks = [sb for sb, _ in lst]
        for sb, tg in lst:
            later = False
            for other in blocks:
                if other != sb and sb in body.reachable(start=other) and other not in body.reachable(start=sb):
                    later = True
            if not later:
                out.update(tg)
    return out


def linear_rule(ctx, crate, rid, bodies_by_impl, prefix_prop):
    for key, bodies in bodies_by_impl:
        total_seeds = 0
        by_name = {}
        for bd in bodies:
            params = ()
            if isinstance(bd, tuple):
                bd, params = bd
            cnt, finds = linear.analyse(bd, params=params, crate=crate)
            total_seeds += cnt
            names = bd.var_names()
            for kind, l, bb in finds:
                nm = names.get(l, "_tmp")
                by_name.setdefault((bd, nm), []).append(bb)
        ctx.inst(rid, key, nontrivial=total_seeds > 0, sites=total_seeds,
                 sample={"impl": key, "items_bound_from_upstream": total_seeds, "discards": sorted("%s x%d" % (nm, len(v)) for (bd, nm), v in by_name.items())})
        for (bd, nm), bbs in sorted(by_name.items(), key=lambda x: (x[0][0].def_path, x[0][1])):
            k = "%s|%s|dropped:%sx%d" % (crate.name, fn_key(crate, bd), nm, len(bbs))
            ctx.violation(rid, k, "an item bound from an upstream result (`%s`) is dropped on %d path(s) instead of being moved onward "
                          "(returned, buffered in self, or passed on by value)" % (nm, len(bbs)), bd.loc(bbs[0]), {"function": bd.def_path, "drop_blocks": bbs})


def run(ctx):
    ctx.explanation = ("Ownership (linearity) analysis on drop-elaborated MIR of all Pull::pull impls of dfir_pipes: an item bound out of an upstream PullStep::Ready / "
                       "Poll::Ready(Some) / Iterator::next result must be moved onward on every path, in particular on the paths that return Pending/Ended because a "
                       "second upstream was not ready; plus Fuse's typestate and 'Pending only when an upstream pended'.")
    ctx.undecided = "order of items, size-hint bounds, equality with iterator semantics; payloads discarded through wildcard patterns (never bound) are not examined"
    ctx.assumptions = ["drop elaboration of rustc (-Zmir-opt-level=0): a remaining Drop terminator of a local is a real drop on some path"]
    c = mir.load_crate("dfir_pipes")
    R_LIN = ctx.rule("C11.linear", "every item bound from an upstream result is moved onward on every path (no drop, no overwrite); intentional discards are table entries", floor=30)
    impls = c.impls_of_trait("pull::Pull")
    groups = []
    for imp in impls:
        b = c.impl_method(imp, "pull")
        if b is None:
            continue
        groups.append(("dfir_pipes|" + fn_key(c, b), [b] + c.closures_of(b.def_path)))
    linear_rule(ctx, c, R_LIN, groups, "C11")
    R_TP = ctx.rule("C11.takepend", "a value taken out of a combinator's state (buffer.take(), mem::replace) is never dropped on a path that returns Pending", floor=1)
    takepend_rule(ctx, c, R_TP, set(i.get("self_adt") for i in impls if i.get("self_adt")), "dfir_pipes")

    # ---- pendsrc
    R_PEND = ctx.rule("C11.pendsrc", "a combinator with upstreams returns Pending only on a path on which an upstream result was Pending in the same call", floor=15)
    for imp in impls:
        b = c.impl_method(imp, "pull")
        if b is None:
            continue
        seeds, res_like = linear.item_seeds(b, c)
        ups = linear.upstream_result_locals(b, c)
        if not ups:
            continue
        key = "dfir_pipes|" + fn_key(c, b)
        # blocks that make _0 Pending
        pend_blocks = []
        for bb, t in b.calls():
            f = t.get("f")
            if f and f["name"] == "pending" and t.get("dst") == 0:
                pend_blocks.append(bb)
        for bb, i, lhs, rv in b.assignments():
            if lhs == 0 and rv["k"] == "agg" and (rv.get("adt") or {}).get("variant") == "Pending" and not b.is_cleanup(bb):
                pend_blocks.append(bb)
        src = set(res_like)
        P = variant_edge_targets(b, src, "Pending")
        # is_pending(&res) -> true edge
        for bb, t in b.calls():
            f = t.get("f")
            if f and f["name"] == "is_pending" and isinstance(t.get("dst"), int):
                d = t["dst"]
                for sb in range(b.n):
                    ts = b.term(sb)
                    if ts["k"] == "switch" and op_place(ts["d"]) == d:
                        P.add(ts["o"])
        ctx.inst(R_PEND, key, nontrivial=bool(pend_blocks), sites=len(pend_blocks),
                 sample={"function": b.def_path, "pending_return_blocks": pend_blocks, "upstream_pending_edge_targets": sorted(P)})
        for pb in pend_blocks:
            ok, _ = b.all_paths_pass(P, {pb})
            if not ok and pb not in P:
                ctx.violation(R_PEND, key + "|manufactured-pending", "Pending is returned on a path on which no upstream reported Pending in this call: no waker was "
                              "registered by anyone, so the async driver is never re-polled", b.loc(pb), {"path_blocks": b.find_path(0, {pb}, avoid=P)})

    R_END = ctx.rule("C11.endsrc", "Ended is returned only after the upstreams named by the impl's own `type CanEnd` (pass-through: that one; And: all; Or: one) reported Ended in this call", floor=15)
    endsrc_rule(ctx, c, impls, R_END)
    R_LATCH = ctx.rule("C11.latch", "a combinator declared FusedPull over a possibly unfused upstream latches the upstream's Ended in its own state on every path", floor=2)
    latch_rule(ctx, c, impls, R_LATCH)
    # ---- fuse
    R_FUSE = ctx.rule("C11.fuse", "Fuse: the upstream is pulled only under the not-yet-ended test, and every Ended from upstream resets the stored upstream before returning", floor=1)
    found = False
    for imp in impls:
        if not imp["self"].startswith("dfir_pipes::pull::fuse::Fuse<"):
            continue
        b = c.impl_method(imp, "pull")
        if b is None:
            continue
        found = True
        key = "dfir_pipes|" + fn_key(c, b)
        ups = linear.upstream_result_locals(b, c)
        pull_blocks = [bb for l, (bb, n) in ups.items()]
        E = variant_edge_targets(b, set(ups), "Ended")
        resets = set()
        for bb, t in b.calls():
            f = t.get("f")
            if f and f["name"] in ("project_replace", "set", "take", "replace"):
                resets.add(bb)
        for bb, i, lhs, rv in b.assignments():
            if not isinstance(lhs, int) and "*" in pl_projs(lhs) and any("prev" in pr for pr in pl_projs(lhs)):
                resets.add(bb)
        ctx.inst(R_FUSE, key, sites=len(pull_blocks) + len(E), sample={"function": b.def_path, "ended_edge_targets": sorted(E), "reset_blocks": sorted(resets)})
        if not E or not pull_blocks:
            ctx.anchor_missing(R_FUSE, "upstream pull / Ended edge in Fuse::pull")
        rets = set(b.returns())
        for e in E:
            ok, _ = b.all_paths_pass(resets, rets, start=e)
            if not ok:
                ctx.violation(R_FUSE, key + "|ended-not-recorded", "after the upstream reported Ended a path returns without dropping/resetting the upstream: the next pull "
                              "would poll an ended upstream again", b.loc(e))
        # pull guarded by Some-test on self.prev
        some_targets = set()
        for sb in range(b.n):
            ts = b.term(sb)
            if ts["k"] != "switch":
                continue
            dp = op_place(ts["d"])
            if not isinstance(dp, int):
                continue
            for db, idx, rv in b.defs_of(dp):
                if idx != "term" and rv["k"] == "discr" and "Option" in b.locals[pl_local(rv["p"])]:
                    variants = {v: n for v, n in (rv.get("variants") or [])}
                    for val, tgt in ts["ts"]:
                        if variants.get(val) == "Some":
                            some_targets.add(tgt)
        for pb in pull_blocks:
            if not any(b.dominates(s, pb) for s in some_targets):
                ctx.violation(R_FUSE, key + "|unguarded-pull", "the upstream pull is not guarded by the still-present test", b.loc(pb))
    if not found:
        ctx.anchor_missing(R_FUSE, "impl Pull for Fuse")


def takepend_rule(ctx, crate, rid, adts, desc_crate):
    """a value taken out of the adaptor's own state (Option::take / mem::take / mem::replace on a field of self) must not be dropped on a
    path that returns Pending: the re-poll would not find it again.  Runs over every method (trait or inherent) of the given ADTs."""
    for d, b in sorted(crate.bodies.items()):
        if b.kind == "Closure" or crate.is_test_path(d):
            continue
        fn = crate.fns.get(d)
        if not fn or not fn.get("impl"):
            continue
        imp = crate.impls.get(fn["impl"])
        if not imp or imp.get("self_adt") not in adts:
            continue
        takes = linear.state_take_locals(b)
        key = "%s|%s" % (crate.name, fn_key(crate, b))
        if not takes:
            continue
        cnt, finds = linear.analyse(b, crate=crate, state_takes=True, only_on_pending=True)
        names = b.var_names()
        ctx.inst(rid, key, sites=len(takes), sample={"takes": sorted(v[1] for v in takes.values()), "pending_exits": len(linear.pending_blocks(b))})
        by = {}
        for kind, l, bb in finds:
            by.setdefault(names.get(l, "_tmp"), []).append(bb)
        for nm, bbs in sorted(by.items()):
            ctx.violation(rid, "%s|taken-then-pending:%s" % (key, nm), "`%s` was taken out of the adaptor's state and is dropped on a path that returns Pending: the buffered value is lost when the "
                          "downstream is not ready (the re-poll finds the state empty)" % nm, b.loc(bbs[0]), {"function": b.def_path, "drop_blocks": bbs})


# ----------------------------------------------------------------------------- endsrc / latch (type-derived rules)

def _norm_projs(projs):
    out = []
    for pr in projs:
        if pr.startswith("."):
            out.append("." + pr[1:].split(":")[0])
        elif pr.startswith("@"):
            out.append(pr)
    return tuple(out)


def upstream_of_results(body, crate):
    """(local, normalised projection prefix) -> upstream type parameter name whose pull() result lives there"""
    m = {}
    for bb, t in body.calls():
        f = t.get("f")
        if not f or not isinstance(t.get("dst"), int):
            continue
        if (f.get("trait"), f["name"]) == ("dfir_pipes::pull::Pull", "pull"):
            m[(t["dst"], ())] = f.get("self") or "?"
        elif f["name"] in ("unwrap_or_else", "or_else", "map_or_else"):
            for a in t["a"][1:]:
                p = op_place(a)
                if isinstance(p, int) and body.locals[p].startswith("closure#"):
                    cb = crate.bodies.get(body.locals[p][8:])
                    if cb is None:
                        continue
                    for _bb, t2 in cb.calls():
                        f2 = t2.get("f")
                        if f2 and (f2.get("trait"), f2["name"]) == ("dfir_pipes::pull::Pull", "pull") and t2.get("dst") == 0:
                            m[(t["dst"], ())] = f2.get("self") or "?"
    changed = True
    while changed:
        changed = False
        for bb, i, lhs, rv in body.assignments():
            if not isinstance(lhs, int):
                continue
            if rv["k"] == "use" and "mv" in rv["ops"][0]:
                p = rv["ops"][0]["mv"]
                k = (pl_local(p), _norm_projs(pl_projs(p)))
                for (l, pre), u in list(m.items()):
                    if l == k[0] and pre[:len(k[1])] == k[1]:
                        nk = (lhs, pre[len(k[1]):])
                        if nk not in m:
                            m[nk] = u
                            changed = True
            elif rv["k"] == "agg" and rv["agg"] == "tuple":
                for idx, o in enumerate(rv["ops"]):
                    p = op_place(o)
                    if isinstance(p, int) and "mv" in o:
                        for (l, pre), u in list(m.items()):
                            if l == p:
                                nk = (lhs, (".%d" % idx,) + pre)
                                if nk not in m:
                                    m[nk] = u
                                    changed = True
    return m


def variant_edges_by_place(body, variant):
    """(local, normalised projs) of the switched-on place -> set of target blocks of the `variant` edge"""
    out = {}
    cands = {}
    for sb in range(body.n):
        if body.is_cleanup(sb):
            continue
        ts = body.term(sb)
        if ts["k"] != "switch":
            continue
        dp = op_place(ts["d"])
        if not isinstance(dp, int):
            continue
        for db, idx, rv in body.defs_of(dp):
            if idx == "term" or rv["k"] != "discr":
                continue
            p = rv["p"]
            variants = {v: n for v, n in (rv.get("variants") or [])}
            tg = [tgt for val, tgt in ts["ts"] if variants.get(val) == variant]
            rest = [n for v, n in variants.items() if v not in [x for x, _ in ts["ts"]]]
            if rest == [variant]:
                tg.append(ts["o"])
            other = set(tgt for val, tgt in ts["ts"] if variants.get(val) != variant)
            if rest and rest != [variant]:
                other.add(ts["o"])
            tg = [t0 for t0 in tg if t0 not in other]
            cands.setdefault((pl_local(p), _norm_projs(pl_projs(p))), []).append((sb, tg))
    for key, lst in cands.items():
        blocks = [sb for sb, _ in lst]
        for sb, tg in lst:
            # switches reachable from an earlier switch on the same place are drop-elaboration ladders
            later = any(o != sb and sb in body.reachable(start=o) and o not in body.reachable(start=sb) for o in blocks)
            if not later:
                out.setdefault(key, set()).update(tg)
    return out


def ended_blocks(body):
    out = []
    for bb, t in body.calls():
        f = t.get("f")
        if f and f["name"] == "ended" and "PullStep" in (f.get("impl_self") or f["def"]) and not body.is_cleanup(bb):
            out.append(bb)
    for bb, i, lhs, rv in body.assignments():
        if rv["k"] == "agg" and (rv.get("adt") or {}).get("variant") == "Ended" and "PullStep" in (rv.get("adt") or {}).get("def", "") and not body.is_cleanup(bb):
            out.append(bb)
    return sorted(set(out))


def can_end_requirements(imp):
    """from the impl's `type CanEnd`: ('all', [params]) for pass-through / And, ('any', [params]) for Or, None for unconstrained"""
    import hydrotypes as H
    ty = None
    for it in imp["items"]:
        if it["name"] == "CanEnd" and it.get("ty"):
            ty = H.parse(it["ty"])
    if ty is None:
        return None

    def canend_param(n):
        if n[0] == "proj" and n[3] == "CanEnd" and n[1][0] == "path" and not n[1][2]:
            return n[1][1]
        return None
    p = canend_param(ty)
    if p and p in imp["generics"]:
        return ("all", [p])
    if ty[0] == "proj" and ty[3] in ("And", "Or") and H.last(ty[2][1]) == "Toggle":
        a = canend_param(ty[1])
        b = canend_param(ty[4][0]) if ty[4] else None
        if a and b:
            return ("all" if ty[3] == "And" else "any", [a, b])
    return None


ALLV = frozenset(["Ready", "Pending", "Ended"])


def variant_states(body, keys):
    """forward dataflow: for each tracked place key, the set of PullStep variants it may hold at block entry (refined by discriminant switches and
    by is_pending()/is_ended()/is_ready() tests); returns dict bb -> {key: frozenset}"""
    keys = set(keys)
    locals_of = {}
    for k in keys:
        locals_of.setdefault(k[0], []).append(k)

    def key_of_ref(local, depth=0):
        """a local holding `&<key place>`"""
        if depth > 4:
            return None
        for bb, idx, rv in body.defs_of(local):
            if idx == "term":
                continue
            if rv["k"] in ("ref", "refmut"):
                k = (pl_local(rv["p"]), _norm_projs(pl_projs(rv["p"])))
                if k in keys:
                    return k
            if rv["k"] == "use":
                p = op_place(rv["ops"][0])
                if isinstance(p, int):
                    r = key_of_ref(p, depth + 1)
                    if r:
                        return r
        return None
    tests = {}   # bool local -> (key, variant)
    for bb, t in body.calls():
        f = t.get("f")
        if f and f["name"] in ("is_pending", "is_ended", "is_ready") and isinstance(t.get("dst"), int) and t["a"]:
            p = op_place(t["a"][0])
            if isinstance(p, int):
                k = key_of_ref(p)
                if k:
                    tests[t["dst"]] = (k, {"is_pending": "Pending", "is_ended": "Ended", "is_ready": "Ready"}[f["name"]])

    def transfer(bb, st):
        st = dict(st)
        for s_ in body.stmts(bb):
            if "lhs" in s_ and isinstance(s_["lhs"], int):
                for k in locals_of.get(s_["lhs"], []):
                    st[k] = ALLV
        t = body.term(bb)
        outs = {}
        if t["k"] == "call" and isinstance(t.get("dst"), int):
            for k in locals_of.get(t["dst"], []):
                st[k] = ALLV
        if t["k"] == "switch":
            dp = op_place(t["d"])
            handled = False
            if isinstance(dp, int):
                if dp in tests:
                    k, v = tests[dp]
                    for val, tgt in t["ts"]:
                        if val == 0:
                            s2 = dict(st)
                            s2[k] = st.get(k, ALLV) - {v}
                            outs[tgt] = s2
                    s2 = dict(st)
                    s2[k] = st.get(k, ALLV) & {v}
                    outs[t["o"]] = _join(outs.get(t["o"]), s2)
                    handled = True
                else:
                    for db, idx, rv in body.defs_of(dp):
                        if idx == "term" or rv["k"] != "discr":
                            continue
                        k = (pl_local(rv["p"]), _norm_projs(pl_projs(rv["p"])))
                        if k not in keys:
                            continue
                        variants = {v: n for v, n in (rv.get("variants") or [])}
                        taken = set()
                        for val, tgt in t["ts"]:
                            s2 = dict(st)
                            s2[k] = st.get(k, ALLV) & {variants.get(val)}
                            outs[tgt] = _join(outs.get(tgt), s2)
                            taken.add(variants.get(val))
                        s2 = dict(st)
                        s2[k] = st.get(k, ALLV) - taken
                        outs[t["o"]] = _join(outs.get(t["o"]), s2)
                        handled = True
                        break
            if handled:
                return {tgt: _freeze(s2) for tgt, s2 in outs.items() if all(v for v in s2.values())}
        return {tgt: _freeze(st) for _lbl, tgt in body.succ_edges(bb)}

    def _join(a, b_):
        if a is None:
            return b_
        out = dict(a)
        for k, v in b_.items():
            out[k] = out.get(k, frozenset()) | v
        return out

    def _freeze(d):
        return tuple(sorted((k, frozenset(v)) for k, v in d.items()))

    def join(a, b_):
        return _freeze(_join(dict(a), dict(b_)))
    init = _freeze({k: ALLV for k in keys})
    res = mir.forward_dataflow(body, init, lambda bb, st: transfer(bb, dict(st)), join)
    return {bb: dict(st) for bb, st in res.items()}


def _any_ended_on_all_incoming(b, states, ups, params, bb, depth):
    """`Or` combinators: the Ended block is a join of several match arms; the disjunction 'some upstream is Ended' is checked per incoming path
    (walk back over the join until every incoming state names an upstream that is exactly {Ended})"""
    def cond(st):
        return any(st.get(k) == frozenset(["Ended"]) for k, uu in ups.items() if uu in params)
    st = states.get(bb)
    if st is not None and cond(st):
        return True
    if depth == 0:
        return False
    preds = [p for p in b.preds(bb) if not b.is_cleanup(p) and p in states]
    if not preds:
        return False
    for p in preds:
        t = b.term(p)
        if t["k"] == "switch":
            # the refinement happens on the edge: recompute it from the switch
            dp = op_place(t["d"])
            ok = False
            if isinstance(dp, int):
                for db, idx, rv in b.defs_of(dp):
                    if idx != "term" and rv["k"] == "discr":
                        k = (pl_local(rv["p"]), _norm_projs(pl_projs(rv["p"])))
                        variants = {v: n for v, n in (rv.get("variants") or [])}
                        vals = [variants.get(val) for val, tgt in t["ts"] if tgt == bb]
                        if t["o"] == bb:
                            taken = set(variants.get(val) for val, _t in t["ts"])
                            vals += [n for n in variants.values() if n not in taken]
                        if k in ups and ups[k] in params and set(vals) == {"Ended"}:
                            ok = True
            if ok:
                continue
        if not _any_ended_on_all_incoming(b, states, ups, params, p, depth - 1):
            return False
    return True


def endsrc_rule(ctx, c, impls, rid):
    for imp in impls:
        b = c.impl_method(imp, "pull")
        req = can_end_requirements(imp)
        if b is None or req is None:
            continue
        mode, params = req
        key = "dfir_pipes|" + fn_key(c, b)
        ups = upstream_of_results(b, c)
        ebs = ended_blocks(b)
        pull_blocks = [bb for bb, t in b.calls() if t.get("f") and ((t["f"].get("trait"), t["f"]["name"]) == ("dfir_pipes::pull::Pull", "pull") or isinstance(t.get("dst"), int) and (t["dst"], ()) in ups)]
        after_pull = set()
        for pb in pull_blocks:
            after_pull |= b.reachable(start=pb)
        states = variant_states(b, ups.keys()) if ebs else {}
        ctx.inst(rid, key, nontrivial=bool(ebs), sites=len(ebs), sample={"CanEnd": mode + str(params), "ended_blocks": ebs, "upstream_result_places": sorted("%s%s=%s" % (k[0], "".join(k[1]), u) for k, u in ups.items())})
        for eb in ebs:
            if eb not in after_pull:
                continue     # ended from the combinator's own latched state, no upstream was polled in this call
            st = states.get(eb)
            if st is None:
                continue
            have = [u for u in params if any(st.get(k) == frozenset(["Ended"]) for k, uu in ups.items() if uu == u)]
            if mode == "any" and not have and _any_ended_on_all_incoming(b, states, ups, params, eb, 4):
                continue
            if (mode == "all" and len(have) < len(params)) or (mode == "any" and not have):
                missing = [u for u in params if u not in have]
                ctx.violation(rid, key + "|ended-without-upstream-end:" + ",".join(missing),
                              "Ended is returned on a path that has not observed Ended from upstream %s in this call, although the combinator's own `type CanEnd` (%s of %s) says it can end only "
                              "when %s ended: items still pending upstream would be lost" % (missing, "And" if mode == "all" and len(params) > 1 else mode, params,
                                                                                             "all of them" if mode == "all" else "one of them"), b.loc(eb),
                              {"variant_sets": {"%s%s" % (k[0], "".join(k[1])): sorted(v) for k, v in st.items()}})


def latch_rule(ctx, c, impls, rid):
    """impl FusedPull for X without requiring the upstream to be fused: every Ended coming from the upstream must be latched into self"""
    import hydrotypes as H
    fused = {}     # adt -> set of positions of type arguments required to be FusedPull
    for i in c.impls_of_trait("pull::FusedPull"):
        if i.get("self_adt"):
            need = set(p["self"] for p in i["preds"] if p["k"] == "trait" and p["trait"].endswith("::FusedPull"))
            n = H.parse(i["self"])
            pos = set(k for k, a in enumerate(n[2]) if a is not None and a[0] == "path" and not a[2] and a[1] in need) if n[0] == "path" else set()
            fused[i["self_adt"]] = pos
    for imp in impls:
        adt = imp.get("self_adt")
        if adt not in fused:
            continue
        b = c.impl_method(imp, "pull")
        if b is None:
            continue
        ups = upstream_of_results(b, c)
        n = H.parse(imp["self"])
        fused_names = set(a[1] for k, a in enumerate(n[2]) if k in fused[adt] and a is not None and a[0] == "path") if n[0] == "path" else set()
        unfused = set(u for u in ups.values() if u not in fused_names and u in imp["generics"])
        if not unfused:
            continue
        key = "dfir_pipes|" + fn_key(c, b)
        edges = variant_edges_by_place(b, "Ended")
        E = set()
        for k, tg in edges.items():
            if ups.get(k) in unfused:
                E |= tg
        writes = set()
        for bb, i2, lhs, rv in b.assignments():
            if not isinstance(lhs, int) and "*" in pl_projs(lhs) and not b.is_cleanup(bb):
                writes.add(bb)
        for bb, t in b.calls():
            f = t.get("f")
            if f and f["name"] in ("project_replace", "set", "take", "replace") and not b.is_cleanup(bb):
                writes.add(bb)
        rets = set(b.returns())
        ctx.inst(rid, key, sites=len(E), sample={"unfused_upstreams": sorted(unfused), "ended_edge_targets": sorted(E), "state_write_blocks": sorted(writes)})
        if not E:
            ctx.anchor_missing(rid, "Ended edge of the unfused upstream in " + key)
        for e in sorted(E):
            ok, _ = b.all_paths_pass(writes, rets, start=e)
            if not ok:
                ctx.violation(rid, key + "|ended-not-latched", "the combinator is declared FusedPull without requiring its upstream %s to be fused, but after the upstream reported Ended a path "
                              "returns without recording it in the combinator's own state: a later pull would poll the ended upstream again and may yield items after Ended" % sorted(unfused), b.loc(e))


def retrysafe_rule(ctx, crate, rid, adts):
    import retrysafe
    for d, b in sorted(crate.bodies.items()):
        if b.kind == "Closure" or crate.is_test_path(d):
            continue
        fn = crate.fns.get(d)
        if not fn or not fn.get("impl"):
            continue
        imp = crate.impls.get(fn["impl"])
        if not imp or imp.get("self_adt") not in adts:
            continue
        n, finds = retrysafe.analyse(b)
        if not n:
            continue
        key = "%s|%s" % (crate.name, fn_key(crate, b))
        ctx.inst(rid, key, sites=n, sample={"function": b.def_path, "drain_loops_with_readiness_check": n})
        seen = set()
        for w, r, what in finds:
            if what in seen:
                continue
            seen.add(what)
            ctx.violation(rid, key + "|write-before-ready:" + what, "inside a drain loop the adaptor's own state is modified (%s) before the downstream's poll_ready of the same iteration: when the "
                          "downstream answers Pending the function returns and the iteration is retried, so the item / cursor step taken here is lost" % what, b.loc(w), {"ready_block": r})


def phasereset_rule(ctx, crate, rid, adts):
    """a phase marker (own-state field compared with a constant to decide whether the send phase must be (re)initialised) is put back to the value
    that re-enables the phase only where the call can no longer return Pending: under the Done edge of the downstream's answer"""
    import guards
    import proto
    for d, b in sorted(crate.bodies.items()):
        if b.kind == "Closure" or crate.is_test_path(d):
            continue
        fn = crate.fns.get(d)
        if not fn or not fn.get("impl") or fn["name"] not in ("poll_ready", "poll_finalize", "poll_flush", "poll_close"):
            continue
        imp = crate.impls.get(fn["impl"])
        if not imp or imp.get("self_adt") not in adts:
            continue
        org = proto.Origins(b)
        tested = {}
        for bb, i, lhs, rv in b.assignments():
            if rv["k"] == "bin" and rv.get("op") in ("Eq", "Ne") and len(rv["ops"]) == 2:
                cs = [o.get("c") for o in rv["ops"]]
                ps = [op_place(o) for o in rv["ops"]]
                for k in (0, 1):
                    if cs[k] is not None and ps[1 - k] is not None and isinstance(ps[1 - k], int):
                        for db, idx, rv2 in b.defs_of(ps[1 - k]):
                            if idx != "term" and rv2["k"] == "use":
                                p = op_place(rv2["ops"][0])
                                if p is not None and not isinstance(p, int):
                                    root, path = org.origin_place(p)
                                    if root == 1 and path:
                                        tested.setdefault(".".join(str(x) for x in path), set()).add(str(cs[k]))
        if not tested:
            continue
        resets = []
        for bb, i, lhs, rv in b.assignments():
            if b.is_cleanup(bb) or isinstance(lhs, int) or "*" not in pl_projs(lhs) or rv["k"] != "use":
                continue
            cst = rv["ops"][0].get("c")
            if cst is None:
                continue
            root, path = org.origin_place(lhs)
            f = ".".join(str(x) for x in path)
            if root == 1 and f in tested and str(cst) in tested[f]:
                resets.append((bb, f, str(cst)))
        key = "%s|%s" % (crate.name, fn_key(crate, b))
        if not resets:
            continue
        # Pending-capable exits
        down_results = set()
        exits = set()
        call_exits = set()
        for bb, t in b.calls():
            fcall = t.get("f")
            if fcall and fcall["name"] in ("poll_ready", "poll_finalize", "poll_flush", "poll_close") and isinstance(t.get("dst"), int):
                if t["dst"] == 0:
                    exits.add(bb)
                    call_exits.add(bb)
                else:
                    down_results.add(t["dst"])
            elif fcall and fcall["name"] == "pending" and t.get("dst") == 0 and not b.is_cleanup(bb):
                exits.add(bb)
                call_exits.add(bb)
        for bb, i, lhs, rv in b.assignments():
            if lhs != 0 or b.is_cleanup(bb):
                continue
            if rv["k"] == "agg" and (rv.get("adt") or {}).get("variant") == "Pending":
                exits.add(bb)
            elif rv["k"] == "use":
                p = op_place(rv["ops"][0])
                if isinstance(p, int) and p in down_results:
                    exits.add(bb)
        G = guards.Guards(b, {"is_done", "is_ready"})
        ctx.inst(rid, key, sites=len(resets), sample={"phase_fields": {k: sorted(v) for k, v in tested.items()}, "resets": resets, "pending_capable_exits": sorted(exits)})
        for bb, f, cst in resets:
            g = G.guards_of(bb)
            if ("is_done", True) in g or ("is_ready", True) in g:
                continue
            reach = b.reachable(start=bb)
            bad = sorted(e for e in exits if e in reach and (e != bb or e in call_exits))
            if bad:
                ctx.violation(rid, key + "|reset-before-pending:" + f, "the phase marker `%s` is put back to %s (the value that re-enables the send phase) on a path that can still return Pending: a re-polled "
                              "call would run the phase again and deliver its items a second time" % (f, cst), b.loc(bb), {"pending_capable_exit_blocks": bad})
