"""C11 — pull combinators under pending (partial: no upstream item is lost; fuse typestate; Pending only when an upstream pended)."""
import mir
import linear
from framework import fn_key
from mir import op_place, pl_local, pl_projs

LEVEL = "other"


def variant_edge_targets(body, src_locals, variant):
    """targets of the `variant` edge of the *match* switches on discriminant(<local in src_locals>).
    Switches reachable from an earlier switch on the same local are drop-elaboration ladders and are ignored."""
    cands = {}   # src local -> list of (switch block, [targets for variant])
    for sb in range(body.n):
        if body.is_cleanup(sb):
            continue
        ts = body.term(sb)
        if ts["k"] != "switch":
            continue
        dp = op_place(ts["d"])
        if not isinstance(dp, int):
            continue
        for db, idx, rv in body.defs_of(dp):
            if idx == "term" or rv["k"] != "discr":
                continue
            p = rv["p"]
            if not (pl_local(p) in src_locals):
                continue
            variants = {v: n for v, n in (rv.get("variants") or [])}
            tg = [tgt for val, tgt in ts["ts"] if variants.get(val) == variant]
            rest = [n for v, n in variants.items() if v not in [x for x, _ in ts["ts"]]]
            if rest == [variant]:
                tg.append(ts["o"])
            # a target shared with another variant's edge does not witness `variant`
            other = set(tgt for val, tgt in ts["ts"] if variants.get(val) != variant)
            if rest and rest != [variant]:
                other.add(ts["o"])
            tg = [t0 for t0 in tg if t0 not in other]
            cands.setdefault((pl_local(p), tuple(pl_projs(p))), []).append((sb, tg))
    out = set()
    for key, lst in cands.items():
        blocks = [sb for sb, _ in lst]
        for sb, tg in lst:
            later = False
            for other in blocks:
                if other != sb and sb in body.reachable(start=other) and other not in body.reachable(start=sb):
                    later = True
            if not later:
                out.update(tg)
    return out


def linear_rule(ctx, crate, rid, bodies_by_impl, prefix_prop):
    for key, bodies in bodies_by_impl:
        total_seeds = 0
        by_name = {}
        for bd in bodies:
            params = ()
            if isinstance(bd, tuple):
                bd, params = bd
            cnt, finds = linear.analyse(bd, params=params, crate=crate)
            total_seeds += cnt
            names = bd.var_names()
            for kind, l, bb in finds:
                nm = names.get(l, "_tmp")
                by_name.setdefault((bd, nm), []).append(bb)
        ctx.inst(rid, key, nontrivial=total_seeds > 0, sites=total_seeds,
                 sample={"impl": key, "items_bound_from_upstream": total_seeds, "discards": sorted("%s x%d" % (nm, len(v)) for (bd, nm), v in by_name.items())})
        for (bd, nm), bbs in sorted(by_name.items(), key=lambda x: (x[0][0].def_path, x[0][1])):
            k = "%s|%s|dropped:%sx%d" % (crate.name, fn_key(crate, bd), nm, len(bbs))
            ctx.violation(rid, k, "an item bound from an upstream result (`%s`) is dropped on %d path(s) instead of being moved onward "
                          "(returned, buffered in self, or passed on by value)" % (nm, len(bbs)), bd.loc(bbs[0]), {"function": bd.def_path, "drop_blocks": bbs})


def run(ctx):
    ctx.explanation = ("Ownership (linearity) analysis on drop-elaborated MIR of all Pull::pull impls of dfir_pipes: an item bound out of an upstream PullStep::Ready / "
                       "Poll::Ready(Some) / Iterator::next result must be moved onward on every path, in particular on the paths that return Pending/Ended because a "
                       "second upstream was not ready; plus Fuse's typestate and 'Pending only when an upstream pended'.")
    ctx.undecided = "order of items, size-hint bounds, equality with iterator semantics; payloads discarded through wildcard patterns (never bound) are not examined"
    ctx.assumptions = ["drop elaboration of rustc (-Zmir-opt-level=0): a remaining Drop terminator of a local is a real drop on some path"]
    c = mir.load_crate("dfir_pipes")
    R_LIN = ctx.rule("C11.linear", "every item bound from an upstream result is moved onward on every path (no drop, no overwrite); intentional discards are table entries", floor=30)
    impls = c.impls_of_trait("pull::Pull")
    groups = []
    for imp in impls:
        b = c.impl_method(imp, "pull")
        if b is None:
            continue
        groups.append(("dfir_pipes|" + fn_key(c, b), [b] + c.closures_of(b.def_path)))
    linear_rule(ctx, c, R_LIN, groups, "C11")
    R_TP = ctx.rule("C11.takepend", "a value taken out of a combinator's state (buffer.take(), mem::replace) is never dropped on a path that returns Pending", floor=1)
    takepend_rule(ctx, c, R_TP, set(i.get("self_adt") for i in impls if i.get("self_adt")), "dfir_pipes")

    # ---- pendsrc
    R_PEND = ctx.rule("C11.pendsrc", "a combinator with upstreams returns Pending only on a path on which an upstream result was Pending in the same call", floor=15)
    for imp in impls:
        b = c.impl_method(imp, "pull")
        if b is None:
            continue
        seeds, res_like = linear.item_seeds(b, c)
        ups = linear.upstream_result_locals(b, c)
        if not ups:
            continue
        key = "dfir_pipes|" + fn_key(c, b)
        # blocks that make _0 Pending
        pend_blocks = []
        for bb, t in b.calls():
            f = t.get("f")
            if f and f["name"] == "pending" and t.get("dst") == 0:
                pend_blocks.append(bb)
        for bb, i, lhs, rv in b.assignments():
            if lhs == 0 and rv["k"] == "agg" and (rv.get("adt") or {}).get("variant") == "Pending" and not b.is_cleanup(bb):
                pend_blocks.append(bb)
        src = set(res_like)
        P = variant_edge_targets(b, src, "Pending")
        # is_pending(&res) -> true edge
        for bb, t in b.calls():
            f = t.get("f")
            if f and f["name"] == "is_pending" and isinstance(t.get("dst"), int):
                d = t["dst"]
                for sb in range(b.n):
                    ts = b.term(sb)
                    if ts["k"] == "switch" and op_place(ts["d"]) == d:
                        P.add(ts["o"])
        ctx.inst(R_PEND, key, nontrivial=bool(pend_blocks), sites=len(pend_blocks),
                 sample={"function": b.def_path, "pending_return_blocks": pend_blocks, "upstream_pending_edge_targets": sorted(P)})
        for pb in pend_blocks:
            ok, _ = b.all_paths_pass(P, {pb})
            if not ok and pb not in P:
                ctx.violation(R_PEND, key + "|manufactured-pending", "Pending is returned on a path on which no upstream reported Pending in this call: no waker was "
                              "registered by anyone, so the async driver is never re-polled", b.loc(pb), {"path_blocks": b.find_path(0, {pb}, avoid=P)})

    # ---- fuse
    R_FUSE = ctx.rule("C11.fuse", "Fuse: the upstream is pulled only under the not-yet-ended test, and every Ended from upstream resets the stored upstream before returning", floor=1)
    found = False
    for imp in impls:
        if not imp["self"].startswith("dfir_pipes::pull::fuse::Fuse<"):
            continue
        b = c.impl_method(imp, "pull")
        if b is None:
            continue
        found = True
        key = "dfir_pipes|" + fn_key(c, b)
        ups = linear.upstream_result_locals(b, c)
        pull_blocks = [bb for l, (bb, n) in ups.items()]
        E = variant_edge_targets(b, set(ups), "Ended")
        resets = set()
        for bb, t in b.calls():
            f = t.get("f")
            if f and f["name"] in ("project_replace", "set", "take", "replace"):
                resets.add(bb)
        for bb, i, lhs, rv in b.assignments():
            if not isinstance(lhs, int) and "*" in pl_projs(lhs) and any("prev" in pr for pr in pl_projs(lhs)):
                resets.add(bb)
        ctx.inst(R_FUSE, key, sites=len(pull_blocks) + len(E), sample={"function": b.def_path, "ended_edge_targets": sorted(E), "reset_blocks": sorted(resets)})
        if not E or not pull_blocks:
            ctx.anchor_missing(R_FUSE, "upstream pull / Ended edge in Fuse::pull")
        rets = set(b.returns())
        for e in E:
            ok, _ = b.all_paths_pass(resets, rets, start=e)
            if not ok:
                ctx.violation(R_FUSE, key + "|ended-not-recorded", "after the upstream reported Ended a path returns without dropping/resetting the upstream: the next pull "
                              "would poll an ended upstream again", b.loc(e))
        # pull guarded by Some-test on self.prev
        some_targets = set()
        for sb in range(b.n):
            ts = b.term(sb)
            if ts["k"] != "switch":
                continue
            dp = op_place(ts["d"])
            if not isinstance(dp, int):
                continue
            for db, idx, rv in b.defs_of(dp):
                if idx != "term" and rv["k"] == "discr" and "Option" in b.locals[pl_local(rv["p"])]:
                    variants = {v: n for v, n in (rv.get("variants") or [])}
                    for val, tgt in ts["ts"]:
                        if variants.get(val) == "Some":
                            some_targets.add(tgt)
        for pb in pull_blocks:
            if not any(b.dominates(s, pb) for s in some_targets):
                ctx.violation(R_FUSE, key + "|unguarded-pull", "the upstream pull is not guarded by the still-present test", b.loc(pb))
    if not found:
        ctx.anchor_missing(R_FUSE, "impl Pull for Fuse")


def takepend_rule(ctx, crate, rid, adts, desc_crate):
    """a value taken out of the adaptor's own state (Option::take / mem::take / mem::replace on a field of self) must not be dropped on a
    path that returns Pending: the re-poll would not find it again.  Runs over every method (trait or inherent) of the given ADTs."""
    for d, b in sorted(crate.bodies.items()):
        if b.kind == "Closure" or crate.is_test_path(d):
            continue
        fn = crate.fns.get(d)
        if not fn or not fn.get("impl"):
            continue
        imp = crate.impls.get(fn["impl"])
        if not imp or imp.get("self_adt") not in adts:
            continue
        takes = linear.state_take_locals(b)
        key = "%s|%s" % (crate.name, fn_key(crate, b))
        if not takes:
            continue
        cnt, finds = linear.analyse(b, crate=crate, state_takes=True, only_on_pending=True)
        names = b.var_names()
        ctx.inst(rid, key, sites=len(takes), sample={"takes": sorted(v[1] for v in takes.values()), "pending_exits": len(linear.pending_blocks(b))})
        by = {}
        for kind, l, bb in finds:
            by.setdefault(names.get(l, "_tmp"), []).append(bb)
        for nm, bbs in sorted(by.items()):
            ctx.violation(rid, "%s|taken-then-pending:%s" % (key, nm), "`%s` was taken out of the adaptor's state and is dropped on a path that returns Pending: the buffered value is lost when the "
                          "downstream is not ready (the re-poll finds the state empty)" % nm, b.loc(bbs[0]), {"function": b.def_path, "drop_blocks": bbs})
