"""shared helpers for the lattice rules (C01 C02 C03 C05 C09)"""
import re

import mir
import used
from framework import fn_key, short_ty
from mir import op_place, pl_local, pl_projs, pl_fields, forward_dataflow

LATTICE_TRAITS = {"lattices::Merge", "lattices::LatticeFrom", "lattices::IsBot", "lattices::IsTop",
                  "core::cmp::PartialOrd", "core::cmp::PartialEq", "core::cmp::Ord"}


def lattice_impls(c, traits, include_ght=False):
    out = []
    for d, imp in sorted(c.impls.items()):
        if imp.get("trait") not in traits or c.is_test_path(d):
            continue
        if not include_ght and (imp["self"].startswith("lattices::ght::") or "::ght::" in d):
            continue
        if imp["self"].startswith("lattices::test::") or "lattices::test::" in d:
            continue
        out.append(imp)
    return out


def impl_key(c, imp):
    targs = imp.get("trait_args", [])[1:]
    return "lattices|<%s as %s%s>" % (short_ty(imp["self"]), imp["trait"].split("::")[-1], "<%s>" % ", ".join(short_ty(t) for t in targs) if targs else "")


def used_rule(ctx, c, rid, impls, traits_checked):
    for imp in impls:
        uses = used.impl_uses(c, imp)
        preds = [p for p in imp["preds"] if p["k"] == "trait" and p["trait"] in traits_checked]
        key = impl_key(c, imp)
        ctx.inst(rid, key, nontrivial=bool(preds), sites=len(preds),
                 sample={"impl": key, "file": "%s:%s" % (imp["file"], imp["line"]),
                         "bounds": ["%s: %s" % (short_ty(p["self"]), p["trait"].split("::")[-1]) for p in preds]})
        for p in preds:
            if not used.pred_used(p, uses):
                ctx.violation(rid, "%s|unused-bound:%s: %s" % (key, short_ty(p["self"]), p["trait"].split("::")[-1]),
                              "the impl declares the capability `%s: %s` but no method of the impl (nor a closure/helper reachable from it) exercises it: "
                              "the component is not merged/compared/converted/tested as the where-clause says it must be"
                              % (short_ty(p["self"]), p["trait"].split("::")[-1]), "%s:%s" % (imp["file"], imp["line"]))


def field_calls(body, trait, method):
    """call blocks `<F as trait>::method(&self.field ..)` keyed by the field of self (arg 0 derives from (*_1).field)"""
    out = {}
    for bb, t in body.calls():
        f = t.get("f")
        if not f or f.get("trait") != trait or f["name"] != method or not t["a"]:
            continue
        p = op_place(t["a"][0])
        fld = None
        if p is not None:
            fld = self_field_of(body, p)
        out.setdefault(fld, []).append(bb)
    return out


def self_field_of(body, place, depth=0):
    """name of the field of *self (arg 1) that `place` points into, following refs/copies"""
    if depth > 8:
        return None
    if not isinstance(place, int):
        if pl_local(place) == 1:
            fs = pl_fields(place)
            return fs[0] if fs else None
        fs = pl_fields(place)
        inner = self_field_of(body, pl_local(place), depth + 1)
        return inner
    for bb, idx, rv in body.defs_of(place):
        if idx == "term":
            continue
        if rv["k"] in ("ref", "refmut"):
            return self_field_of(body, rv["p"], depth + 1)
        if rv["k"] == "use":
            p = op_place(rv["ops"][0])
            if p is not None:
                return self_field_of(body, p, depth + 1)
    return None


def struct_fields(c, imp):
    adt = c.adts.get(imp.get("self_adt", ""))
    if not adt or len(adt["variants"]) != 1:
        return None
    return [f["name"] for f in adt["variants"][0]["fields"]]


def inner_predicates(c, body):
    """which bottom/top predicates of *component* values a method consults (body + its closures): subset of {'IsBot', 'IsTop'}"""
    out = set()
    for bd in [body] + c.closures_of(body.def_path):
        for bb, t in bd.calls():
            f = t.get("f")
            if f and f.get("trait") in ("lattices::IsBot", "lattices::IsTop"):
                out.add(f["trait"].split("::")[-1])
    return out


def predsib_rule(ctx, c, rid):
    """a Merge impl that special-cases bottom / top component values needs comparison impls (PartialOrd, PartialEq) of the same lattice that
    consult the same predicate: otherwise merge collapses values that the comparisons still distinguish (idempotence / order agreement break)"""
    merges = lattice_impls(c, {"lattices::Merge"})
    cmp_preds = {}
    for tr, meth in (("core::cmp::PartialOrd", "partial_cmp"), ("core::cmp::PartialEq", "eq")):
        for imp in lattice_impls(c, {tr}):
            b = c.impl_method(imp, meth)
            if b is None or not imp.get("self_adt"):
                continue
            cmp_preds.setdefault((imp["self_adt"], tr), set()).update(inner_predicates(c, b))
    for m in merges:
        adt = m.get("self_adt")
        b = c.impl_method(m, "merge")
        if not adt or b is None:
            continue
        mp = inner_predicates(c, b)
        key = impl_key(c, m)
        ctx.inst(rid, key, nontrivial=bool(mp), sites=len(mp), sample={"merge_consults": sorted(mp),
                 "partial_cmp_consults": sorted(cmp_preds.get((adt, "core::cmp::PartialOrd"), [])), "eq_consults": sorted(cmp_preds.get((adt, "core::cmp::PartialEq"), []))})
        for tr in ("core::cmp::PartialOrd", "core::cmp::PartialEq"):
            if (adt, tr) not in cmp_preds:
                continue
            missing = mp - cmp_preds[(adt, tr)]
            for p in sorted(missing):
                ctx.violation(rid, "%s|merge-only-predicate:%s:%s" % (key, p, tr.split("::")[-1]),
                              "merge special-cases component values by %s but the lattice's %s never consults %s: values that merge collapses are still told apart by the comparison "
                              "(merge(a, a) may differ from a; order disagrees with merge)" % (p, tr.split("::")[-1], p), "%s:%s" % (m["file"], m["line"]))


def ord_direction_rule(ctx, c, rid):
    """Max / Min: the stored value is replaced by the other one exactly on the strict-comparison edge in the right direction, and `true` is
    returned exactly there (decides the `<` vs `<=` and direction questions for the two order lattices)"""
    import proto
    want = {"lattices::ord::Max": "self<other", "lattices::ord::Min": "other<self"}
    for imp in lattice_impls(c, {"lattices::Merge"}):
        adt = imp.get("self_adt")
        if adt not in want:
            continue
        b = c.impl_method(imp, "merge")
        if b is None:
            continue
        key = impl_key(c, imp)
        org = proto.Origins(b)
        rel = None
        site = None
        for bb, t in b.calls():
            f = t.get("f")
            if not f or f["name"] not in ("lt", "gt", "le", "ge") or len(t["a"]) != 2 or not isinstance(t.get("dst"), int):
                continue
            sides = []
            for a in t["a"]:
                p = op_place(a)
                r0, _path = org.origin_place(p) if p is not None else (None, ())
                sides.append("self" if r0 == 1 else "other" if r0 == 2 else "?")
            # the edge on which self is assigned
            for sb in range(b.n):
                ts = b.term(sb)
                if ts["k"] != "switch" or op_place(ts["d"]) != t["dst"]:
                    continue
                zero = [tgt for v, tgt in ts["ts"] if v == 0]
                assigns = [ab for ab, i2, lhs, rv in b.assignments() if not isinstance(lhs, int) and pl_local(lhs) == 1 and "*" in pl_projs(lhs) and not b.is_cleanup(ab)]
                on_true = any(b.dominates(ts["o"], ab) for ab in assigns)
                on_false = bool(zero) and any(b.dominates(zero[0], ab) for ab in assigns)
                op = f["name"]
                if on_false and not on_true:
                    op = {"lt": "ge", "gt": "le", "le": "gt", "ge": "lt"}[op]
                elif not on_true:
                    continue
                l, r = sides
                if op in ("gt", "ge"):
                    l, r = r, l
                    op = {"gt": "lt", "ge": "le"}[op]
                rel = "%s%s%s" % (l, "<" if op == "lt" else "<=", r)
                site = bb
                true_ret = [rb for rb, i3, lhs3, rv3 in b.assignments() if lhs3 == 0 and rv3["k"] == "use" and rv3["ops"][0].get("c") == "true" and not b.is_cleanup(rb)]
                tgt_assign = ts["o"] if on_true else zero[0]
                tgt_keep = zero[0] if on_true and zero else ts["o"]
                if not any(b.dominates(tgt_assign, rb) for rb in true_ret) or any(b.dominates(tgt_keep, rb) for rb in true_ret):
                    ctx.violation(rid, key + "|flag-edge", "`true` (changed) is not returned exactly on the edge that replaces the stored value", b.loc(bb))
        ctx.inst(rid, key, sample={"replaces_when": rel, "expected": want[adt]})
        if rel is None:
            ctx.anchor_missing(rid, "comparison deciding the replacement in " + key)
        elif rel != want[adt]:
            ctx.violation(rid, key + "|direction", "%s replaces its value when `%s` but the lattice requires `%s` (strict): %s" % (
                adt.split("::")[-1], rel, want[adt], "equal values would be reported as a change" if "<=" in rel else "the smaller/greater element wins, merge is not the join"),
                b.loc(site) if site is not None else b.loc())


def _tiny_expr(b, local=0, depth=0):
    """expression tree of a tiny accessor body: ('const', text) | ('call', name, field) | ('cast', e) | ('not', e) | ('eq0', e) | ('?',)"""
    if depth > 8:
        return ("?",)
    defs = [d for d in b.defs_of(local)]
    if len(defs) != 1:
        return ("?",)
    bb, idx, rv = defs[0]
    if idx == "term":
        if rv["k"] == "call" and rv.get("f"):
            fld = None
            if rv["a"]:
                p = op_place(rv["a"][0])
                if p is not None:
                    fld = self_field_of(b, p)
            return ("call", rv["f"]["name"], fld)
        return ("?",)
    if rv["k"] == "use":
        o = rv["ops"][0]
        if o.get("c") is not None:
            return ("const", str(o["c"]))
        p = op_place(o)
        return _tiny_expr(b, pl_local(p), depth + 1) if isinstance(p, int) else ("?",)
    if rv["k"] == "cast":
        p = op_place(rv["ops"][0])
        return ("cast", _tiny_expr(b, pl_local(p), depth + 1)) if isinstance(p, int) else ("?",)
    if rv["k"] == "un" and rv.get("op") == "Not":
        p = op_place(rv["ops"][0])
        return ("not", _tiny_expr(b, pl_local(p), depth + 1)) if isinstance(p, int) else ("?",)
    if rv["k"] == "bin" and rv.get("op") == "Eq":
        cs = [o.get("c") for o in rv["ops"]]
        ps = [op_place(o) for o in rv["ops"]]
        for k in (0, 1):
            if cs[k] is not None and str(cs[k]).startswith("0") and isinstance(ps[1 - k], int):
                return ("eq0", _tiny_expr(b, ps[1 - k], depth + 1))
    return ("?",)


def len_isempty_rule(ctx, c, rid):
    """an impl of the collection trait `Len` that overrides `is_empty` must agree with its own `len()` (the lattices' bottom test goes through
    is_empty, comparisons and merges through len / iteration)"""
    seen = set()
    for imp in c.impls_of_trait("cc_traits::Len"):
        if imp["def"] in seen or c.is_test_path(imp["def"]):
            continue
        seen.add(imp["def"])
        bl = c.impl_method(imp, "len")
        be = c.impl_method(imp, "is_empty")
        if bl is None or be is None:
            continue
        key = "lattices|<%s as Len>" % short_ty(imp["self"])
        el, ee = _tiny_expr(bl), _tiny_expr(be)
        verdict = None
        if el[0] == "const":
            txt = el[1]
            if txt.split("_")[0].isdigit():
                verdict = ee == ("const", "true" if int(txt.split("_")[0]) == 0 else "false")
            else:
                # a const generic (`N`): emptiness must be computed from it, a literal answer is wrong for one of its values
                verdict = ee[0] == "eq0" and (ee[1] == el or ee[1][0] == "call" and ee[1][1] == "len")
        elif el[0] == "cast" and el[1][0] == "call" and el[1][1] == "is_some":
            verdict = ee == ("call", "is_none", el[1][2]) or ee == ("not", el[1])
        elif el[0] == "call" and el[1] == "len":
            verdict = ee == ("call", "is_empty", el[2]) or ee == ("eq0", el)
        ctx.inst(rid, key, nontrivial=verdict is not None, sample={"len": el, "is_empty": ee, "decided": verdict is not None})
        if verdict is False:
            ctx.violation(rid, key + "|is_empty-disagrees-with-len", "the overridden is_empty() (%s) does not agree with len() (%s): the bottom test of the set/map lattices (is_empty) and their "
                          "comparisons/merges (len, iteration) would disagree for some value" % (ee, el), be.loc())
