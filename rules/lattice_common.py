"""shared helpers for the lattice rules (C01 C02 C03 C05 C09)"""
import re

import mir
import used
from framework import fn_key, short_ty
from mir import op_place, pl_local, pl_projs, pl_fields, forward_dataflow

LATTICE_TRAITS = {"lattices::Merge", "lattices::LatticeFrom", "lattices::IsBot", "lattices::IsTop",
                  "core::cmp::PartialOrd", "core::cmp::PartialEq", "core::cmp::Ord"}


def lattice_impls(c, traits, include_ght=False):
    out = []
    for d, imp in sorted(c.impls.items()):
        if imp.get("trait") not in traits or c.is_test_path(d):
            continue
        if not include_ght and (imp["self"].startswith("lattices::ght::") or "::ght::" in d):
            continue
        if imp["self"].startswith("lattices::test::") or "lattices::test::" in d:
            continue
        out.append(imp)
    return out


def impl_key(c, imp):
    targs = imp.get("trait_args", [])[1:]
    return "lattices|<%s as %s%s>" % (short_ty(imp["self"]), imp["trait"].split("::")[-1], "<%s>" % ", ".join(short_ty(t) for t in targs) if targs else "")


def used_rule(ctx, c, rid, impls, traits_checked):
    for imp in impls:
        uses = used.impl_uses(c, imp)
        preds = [p for p in imp["preds"] if p["k"] == "trait" and p["trait"] in traits_checked]
        key = impl_key(c, imp)
        ctx.inst(rid, key, nontrivial=bool(preds), sites=len(preds),
                 sample={"impl": key, "file": "%s:%s" % (imp["file"], imp["line"]),
                         "bounds": ["%s: %s" % (short_ty(p["self"]), p["trait"].split("::")[-1]) for p in preds]})
        for p in preds:
            if not used.pred_used(p, uses):
                ctx.violation(rid, "%s|unused-bound:%s: %s" % (key, short_ty(p["self"]), p["trait"].split("::")[-1]),
                              "the impl declares the capability `%s: %s` but no method of the impl (nor a closure/helper reachable from it) exercises it: "
                              "the component is not merged/compared/converted/tested as the where-clause says it must be"
                              % (short_ty(p["self"]), p["trait"].split("::")[-1]), "%s:%s" % (imp["file"], imp["line"]))


def field_calls(body, trait, method):
    """call blocks `<F as trait>::method(&self.field ..)` keyed by the field of self (arg 0 derives from (*_1).field)"""
    out = {}
    for bb, t in body.calls():
        f = t.get("f")
        if not f or f.get("trait") != trait or f["name"] != method or not t["a"]:
            continue
        p = op_place(t["a"][0])
        fld = None
        if p is not None:
            fld = self_field_of(body, p)
        out.setdefault(fld, []).append(bb)
    return out


def self_field_of(body, place, depth=0):
    """name of the field of *self (arg 1) that `place` points into, following refs/copies"""
    if depth > 8:
        return None
    if not isinstance(place, int):
        if pl_local(place) == 1:
            fs = pl_fields(place)
            return fs[0] if fs else None
        fs = pl_fields(place)
        inner = self_field_of(body, pl_local(place), depth + 1)
        return inner
    for bb, idx, rv in body.defs_of(place):
        if idx == "term":
            continue
        if rv["k"] in ("ref", "refmut"):
            return self_field_of(body, rv["p"], depth + 1)
        if rv["k"] == "use":
            p = op_place(rv["ops"][0])
            if p is not None:
                return self_field_of(body, p, depth + 1)
    return None


def struct_fields(c, imp):
    adt = c.adts.get(imp.get("self_adt", ""))
    if not adt or len(adt["variants"]) != 1:
        return None
    return [f["name"] for f in adt["variants"][0]["fields"]]
