"""C37 — exhaustive simulation covers every distinct schedule (partial: every choice offered to the exhaustive driver spans the whole pending collection)."""
import mir
import p_C36
from mir import op_place, pl_local

LEVEL = "other"

# generator ranges whose upper bound is a *stored* length rather than a direct len() call: (hook, reason)
REVIEWED_STORED_LEN = {
    "TopLevelKeyedStreamOrderHook<K, V>": "`queue_len` is the q.len() recorded next to the key in `nonempty_keys` a few lines above, under the same borrow of the input map",
}


def prov(b, op, depth=0):
    """provenance tree of a usize operand: ('const', v) | ('len', type) | ('call', name, [args]) | ('bin', op, [args]) | ('loopvar',) | ('gen',) | ('param', n) | ('alt', [trees]) | ('?', why)"""
    p = op_place(op)
    if p is None:
        return ("const", str(mir.op_const(op)))
    l = pl_local(p)
    if depth > 10:
        return ("?", "depth")
    ds = b.defs_of(l)
    if not ds:
        return ("param", l)
    out = []
    for bb, idx, rv in ds:
        if idx == "term":
            f = rv.get("f") or {}
            nm = f.get("name")
            if nm == "len" and rv.get("a"):
                out.append(("len", b.locals[pl_local(op_place(rv["a"][0]))]))
            elif nm == "next":
                out.append(("loopvar",))
            elif nm == "generate":
                out.append(("gen",))
            elif nm in ("unwrap", "clone", "deref", "into", "from") and rv.get("a"):
                out.append(prov(b, rv["a"][0], depth + 1))
            else:
                out.append(("call", nm, [prov(b, a, depth + 1) for a in rv.get("a", [])[:3]]))
        elif rv["k"] in ("use", "cast"):
            o = rv["ops"][0]
            pp = op_place(o)
            if pp is not None and not isinstance(pp, int) and any(isinstance(x, str) and x.startswith("@") for x in pp[1:]):
                # payload of an enum (Option<usize> from next()/generate())
                out.append(prov(b, {"cp": pl_local(pp)}, depth + 1))
            else:
                out.append(prov(b, o, depth + 1))
        elif rv["k"] in ("ref", "refmut"):
            out.append(prov(b, {"cp": rv["p"]}, depth + 1))
        elif rv["k"] == "bin":
            out.append(("bin", rv["op"], [prov(b, o, depth + 1) for o in rv["ops"]]))
        elif rv["k"] == "agg":
            out.append(("agg", [prov(b, o, depth + 1) for o in rv["ops"]]))
        else:
            out.append(("?", rv["k"]))
    uniq = []
    for o in out:
        if o not in uniq:
            uniq.append(o)
    return uniq[0] if len(uniq) == 1 else ("alt", uniq)


def show(t):
    k = t[0]
    if k == "const":
        return t[1]
    if k == "len":
        return "len(%s)" % t[1].split("<")[0].split("::")[-1]
    if k == "call":
        return "%s(%s)" % (t[1], ", ".join(show(x) for x in t[2]))
    if k == "bin":
        return "%s(%s)" % (t[1], ", ".join(show(x) for x in t[2]))
    if k == "alt":
        return " | ".join(show(x) for x in t[1])
    if k == "agg":
        return "{%s}" % ", ".join(show(x) for x in t[1])
    if k == "param":
        return "_%d" % t[1]
    return k if len(t) == 1 else "%s:%s" % (k, t[1])


def range_bounds(b, op):
    """(kind 'excl'|'incl', lo tree, hi tree) of the range operand handed to generate"""
    p = op_place(op)
    if p is None:
        return None
    l = pl_local(p)
    for _ in range(6):
        ds = b.defs_of(l)
        if len(ds) != 1:
            return None
        bb, idx, rv = ds[0]
        if idx == "term":
            f = rv.get("f") or {}
            if f.get("name") == "new" and "range" in f.get("def", "") and len(rv.get("a", [])) == 2:
                return ("incl", prov(b, rv["a"][0]), prov(b, rv["a"][1]))
            return None
        if rv["k"] in ("ref", "refmut"):
            l = pl_local(rv["p"])
            continue
        if rv["k"] == "use":
            pp = op_place(rv["ops"][0])
            if pp is None:
                return None
            l = pl_local(pp)
            continue
        if rv["k"] == "agg" and len(rv["ops"]) == 2:
            ty = b.locals[l]
            return ("incl" if "RangeInclusive" in ty else "excl", prov(b, rv["ops"][0]), prov(b, rv["ops"][1]))
        return None
    return None


def lo_ok(t):
    k = t[0]
    if k == "const":
        return t[1].startswith("0") or t[1].startswith("1")
    if k in ("gen", "loopvar"):
        return True
    if k == "alt":
        return all(lo_ok(x) for x in t[1])
    return False


def hi_form(kind, t):
    """'len' (whole collection, as a count or as an exclusive index bound), 'last' (len-1 as inclusive index bound), 'loopvar', 'stored', or None"""
    k = t[0]
    if k == "len":
        return "len"
    if k == "call" and t[1] == "saturating_sub" and len(t[2]) == 2 and t[2][0][0] == "len" and t[2][1] == ("const", "1_usize"):
        return "last" if kind == "incl" else None
    if k == "loopvar":
        return "loopvar" if kind == "incl" else None
    if k == "call" and t[1] == "index":
        return "stored"
    return None


def run(ctx):
    ctx.explanation = ("In exhaustive mode every release decision is a value drawn from a bolero generator; the driver enumerates the generator's whole domain. Completeness of the exploration therefore "
                       "needs every domain offered by a hook to span the whole pending collection: the upper bound of each usize range handed to `generate` in a hook's autonomous_decision is, "
                       "without arithmetic or clamping, the `len()` of a collection (a count `lo..=len`, or an exclusive index bound `lo..len`), `len-1` as an inclusive last index, or the loop "
                       "variable of a Fisher-Yates pass; the lower bound is 0, the forced-progress 0|1, a previous draw (the NoOrder min_index pruning) or a loop variable. The provenance of "
                       "both bounds is reconstructed from MIR def-use chains.")
    ctx.undecided = ("that bolero's exhaustive driver enumerates each offered domain completely, that tick / observation orderings in CompiledSim are all offered, and that the NoOrder pruning "
                     "(`min_index = idx`) only removes schedules that are permutations within one batch")
    c = mir.load_crate("hydro_lang")
    R = ctx.rule("C37.fullrange", "every index/count range a simulator hook offers to the exhaustive driver spans the whole pending collection (bounds read from def-use provenance)", floor=13)
    impls = p_C36.hook_impls(c)
    if len(impls) < 14:
        ctx.anchor_missing(R, "SimHook impls")
        return
    stop_offer_rule(ctx, c)
    n = 0
    for imp in sorted(impls, key=lambda i: i["def"]):
        sty = p_C36.short(imp.get("self", ""))
        for b in p_C36.bodies_of(c, imp, "autonomous_decision"):
            for bb, t in b.calls():
                f = t.get("f") or {}
                if f.get("name") != "generate" or "Range" not in f.get("self", "") or "usize" not in f.get("self", ""):
                    continue
                n += 1
                key = "hydro_lang|%s|range#%d" % (sty, n)
                vkey = "hydro_lang|%s" % sty
                rb = range_bounds(b, t["a"][0])
                if rb is None:
                    ctx.inst(R, key, sample={"bounds": None})
                    ctx.violation(R, vkey + "|range-not-readable", "cannot reconstruct the bounds of a range handed to the generator", b.loc(bb))
                    continue
                kind, lo, hi = rb
                form = hi_form(kind, hi)
                ctx.inst(R, key, sample={"kind": kind, "lo": show(lo), "hi": show(hi), "form": form, "line": t.get("ln")})
                if not lo_ok(lo):
                    ctx.violation(R, vkey + "|lower-bound|" + show(lo)[:60], "the lower bound of an offered range is %s: choices below it are never explored" % show(lo), b.loc(bb))
                if form is None:
                    ctx.violation(R, vkey + "|upper-bound|" + show(hi)[:80], "the upper bound of an offered %s range is `%s`, not the length (or last index) of the pending collection: some release "
                                  "decisions are never offered to the exhaustive driver" % ("inclusive" if kind == "incl" else "exclusive", show(hi)), b.loc(bb))
                elif form == "stored" and sty not in REVIEWED_STORED_LEN:
                    ctx.violation(R, vkey + "|stored-length-unreviewed", "the upper bound is a stored value (%s) that is not in the reviewed table" % show(hi), b.loc(bb))


def stop_offer_rule(ctx, c):
    """'Every subset for unordered inputs' includes the empty one and every proper prefix of a pick sequence: when a hook is *not* forced to make progress, each removal from
    its pending queue must be preceded by a boolean draw that can decline it. Evaluated on the CFG specialised to force_nontrivial == false (edges of switches on the
    parameter that need it to be true are pruned): every path from entry to a removal passes a `generate` on a bool generator."""
    from mir import op_place, pl_local
    R = ctx.rule("C37.stopoffer", "unordered-release hooks: when not forced, every removal from the pending queue is preceded by a boolean draw that can decline it (the empty and partial subsets are offered)", floor=3)
    impls = [i for i in p_C36.hook_impls(c) if i.get("trait", "").endswith("::SimHook")]
    for imp in sorted(impls, key=lambda i: i["def"]):
        sty = p_C36.short(imp.get("self", ""))
        if "TotalOrder" in sty or any(sty.startswith(h + "<") for h in p_C36.SNAPSHOT_HOOKS) or sty.startswith("PassthroughSingletonHook"):
            continue      # ordered hooks draw a count from lo..=len (C37.fullrange); snapshot hooks must release when nothing was released yet
        b = c.bodies.get(imp["def"] + "::autonomous_decision")
        if b is None or b.argc < 3:
            continue
        removals = [bb for bb, t in b.calls() if (t.get("f") or {}).get("name") in ("remove", "pop_front", "swap_remove_back") and "vec_deque::" in (t.get("f") or {}).get("def", "") and not b.is_cleanup(bb)]
        if not removals:
            continue
        # locals that are copies of the force_nontrivial parameter (_3), possibly reassigned to `false` (never to true)
        force = {3}
        for _bb, _i, lhs, rv in b.assignments():
            if isinstance(lhs, int) and rv["k"] == "use" and isinstance(op_place(rv["ops"][0]), int) and op_place(rv["ops"][0]) in force:
                force.add(lhs)
        avoid = set()
        for sb in range(b.n):
            t = b.term(sb)
            if t["k"] == "switch":
                d = op_place(t["d"])
                if isinstance(d, int) and d in force:
                    # value 0 = false edge is kept; the otherwise / non-zero edges are pruned
                    for v, tg in t["ts"]:
                        if int(v) != 0:
                            avoid.add((sb, tg))
                    avoid.add((sb, t["o"]))
        # constant propagation over the specialised CFG: a bool local whose every reachable definition is `const false` prunes its switches too
        for _round in range(6):
            def _reach():
                seen, st = set(), [0]
                while st:
                    x = st.pop()
                    if x in seen:
                        continue
                    seen.add(x)
                    for y in b.succs(x):
                        if (x, y) not in avoid:
                            st.append(y)
                return seen
            live = _reach()
            grew = False
            for sb in live:
                t = b.term(sb)
                if t["k"] != "switch":
                    continue
                d = op_place(t["d"])
                if not isinstance(d, int) or d in force:
                    continue
                def _is_false(l, depth=0):
                    ds = [(db, idx, rv) for db, idx, rv in b.defs_of(l) if db in live]
                    if not ds or depth > 4:
                        return False
                    for db, idx, rv in ds:
                        if idx == "term" or rv["k"] != "use":
                            return False
                        o = rv["ops"][0]
                        if str(mir.op_const(o)) == "false":
                            continue
                        pp = op_place(o)
                        if isinstance(pp, int) and pp not in force and _is_false(pp, depth + 1):
                            continue
                        return False
                    return True
                if _is_false(d):
                    for v, tg in t["ts"]:
                        if int(v) != 0 and (sb, tg) not in avoid:
                            avoid.add((sb, tg))
                            grew = True
                    if (sb, t["o"]) not in avoid:
                        avoid.add((sb, t["o"]))
                        grew = True
            if not grew:
                break
        draws = set(bb for bb, t in b.calls() if (t.get("f") or {}).get("name") == "generate" and "bool" in ((t.get("f") or {}).get("self") or "") + " ".join((t.get("f") or {}).get("args") or []) and not b.is_cleanup(bb))
        key = "hydro_lang|" + sty
        ctx.inst(R, key, sites=len(removals), sample={"removals": len(removals), "boolean_draws": len(draws), "pruned_edges": len(avoid)})
        ok, w = b.all_paths_pass(draws, set(removals), start=0, avoid_edges=avoid)
        if not ok:
            ctx.violation(R, key + "|removal-not-declinable", "with force_nontrivial == false there is a path to a removal from the pending queue that passes no boolean draw: the schedule in which this "
                          "hook releases nothing (or stops earlier) is never offered to the exhaustive driver", b.loc(w if w is not None else removals[0]))
