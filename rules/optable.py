"""operator table (E2): OperatorConstraints constants of dfir_lang/src/graph/ops/*.rs"""
import re

import synfacts

OPS_DIR = "dfir_lang/src/graph/ops"


def parse_range(text):
    t = text.replace(" ", "")
    if t == "RANGE_0":
        return (0, 0)
    if t == "RANGE_1":
        return (1, 1)
    if t == "RANGE_ANY":
        return (0, None)
    m = re.match(r"^&\((\d*)\.\.(=?)(\d*)\)$", t)
    if not m:
        return None
    lo = int(m.group(1)) if m.group(1) else 0
    if m.group(3) == "":
        return (lo, None)
    hi = int(m.group(3))
    if m.group(2) != "=":
        hi -= 1
    return (lo, hi)


class Op:
    def __init__(self, file, const, facts):
        self.file = file
        self.const = const["name"]
        self.fields = {k: v["text"] for k, v in const["fields"].items()}
        self.line = const["line"]
        self.name = self.fields.get("name", "").strip('"')
        tag = "const " + self.const
        self.macros = [m for m in facts["macros"] if m["fn"].endswith(tag) or (" " + tag + "::") in (" " + m["fn"] + "::")]
        self.lets = [m for m in facts["lets"] if m["fn"].endswith(tag)]
        self.matches = [m for m in facts["matches"] if m["fn"].endswith(tag)]

    def rng(self, field):
        return parse_range(self.fields.get(field, ""))

    def templates(self):
        return [m for m in self.macros if m["macro"] in ("quote", "quote_spanned", "parse_quote", "parse_quote_spanned")]


def load_ops():
    d = synfacts.scan_dir(OPS_DIR)
    ops = []
    for f, v in sorted(d.items()):
        for c in v["consts"]:
            if "OperatorConstraints" in c["ty"]:
                ops.append(Op(f, c, v))
    return ops
