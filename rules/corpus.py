"""E4: structural rules on the code that dfir_lang generates for a small corpus of dfir_syntax! programs (/verif/corpus).  The programs are
compiled with the repository's current dfir_lang and never run; the tick closure of each (an async closure -> `mir_built` coroutine body)
is analysed like any other body.  Bounded by the corpus: this is translation validation of the listed programs, not a proof about the generator."""
import facts
import mir
from mir import op_place, op_const, pl_local, pl_projs

_crate = None


def crate():
    global _crate
    if _crate is None:
        files = facts.ensure_corpus_facts(verbose=True)
        _crate = mir.Crate("verif_corpus", files)
    return _crate


def tick_closures(c):
    """program name -> tick closure body (the coroutine that calls Context::__end_tick)"""
    out = {}
    for d, b in sorted(c.bodies.items()):
        if any(t.get("f") and t["f"]["name"] == "__end_tick" for bb, t in b.calls()):
            prog = d.split("::")[1]
            out[prog] = b
    return out


def call_blocks(b, name):
    return [bb for bb, t in b.calls() if t.get("f") and t["f"]["name"] == name and not b.is_cleanup(bb)]


def upvar_state_writes(b, region):
    """writes to captured state (fields of the closure environment `_1`) inside the given blocks: assignments through `(*_1.k)` and calls taking `&mut (*_1.k)`"""
    out = []
    for bb in sorted(region):
        for st in b.stmts(bb):
            if "lhs" in st and not isinstance(st["lhs"], int) and pl_local(st["lhs"]) == 1 and "*" in pl_projs(st["lhs"]):
                out.append((bb, "assign " + mir.pl_str(st["lhs"])))
            rv = st.get("rv")
            if rv and rv["k"] == "agg" and rv.get("agg") == "closure":
                # a closure that captures `&mut <environment state>` (and is handed to the operator's work function)
                for o in rv.get("ops", []):
                    p = op_place(o)
                    if isinstance(p, int) and b.locals[p].startswith("&mut "):
                        for db, idx, rv2 in b.defs_of(p):
                            if idx != "term" and rv2["k"] == "refmut" and pl_local(rv2["p"]) == 1:
                                out.append((bb, "closure capturing &mut " + mir.pl_str(rv2["p"])))
        t = b.term(bb)
        if t["k"] == "call" and t.get("f") and t["a"]:
            p = op_place(t["a"][0])
            if isinstance(p, int) and b.locals[p].startswith("&mut "):
                for db, idx, rv in b.defs_of(p):
                    if idx != "term" and rv["k"] == "refmut" and pl_local(rv["p"]) == 1:
                        out.append((bb, "%s(&mut %s)" % (t["f"]["name"], mir.pl_str(rv["p"]))))
                    elif idx != "term" and rv["k"] == "refmut" and isinstance(pl_local(rv["p"]), int):
                        # reborrow of a &mut into the environment
                        for db2, idx2, rv2 in b.defs_of(pl_local(rv["p"])):
                            if idx2 != "term" and rv2["k"] == "refmut" and pl_local(rv2["p"]) == 1:
                                out.append((bb, "%s(&mut %s)" % (t["f"]["name"], mir.pl_str(rv2["p"]))))
    return out


def schedule_switch(b):
    """the block holding the `if false || ...` test that guards schedule_subgraph(true): the switch whose true edge dominates the call"""
    ss = call_blocks(b, "schedule_subgraph")
    if len(ss) != 1:
        return None, ss
    for sb in range(b.n):
        t = b.term(sb)
        if t["k"] == "switch" and b.dominates(t["o"], ss[0]) and len(b.preds(t["o"])) == 1 and not b.dominates(t["o"], sb):
            cand = sb
            # innermost: prefer the switch closest to the call
            best = cand
    # choose the dominating switch with the largest rpo index (closest)
    cands = [sb for sb in range(b.n) if b.term(sb)["k"] == "switch" and b.dominates(b.term(sb)["o"], ss[0])]
    cands = [sb for sb in cands if all(b.dominates(o, sb) or o == sb for o in cands if b.dominates(o, sb) or o == sb)]
    if not cands:
        return None, ss
    inner = max(cands, key=lambda sb: sum(1 for o in cands if b.dominates(o, sb)))
    return inner, ss


def cond_uses_is_empty(b, sb):
    """is the schedule test a real test over a buffer: an is_empty() call lies between the head of the `false || ..` chain and the schedule_subgraph call"""
    ss = call_blocks(b, "schedule_subgraph")
    if not ss:
        return False
    for bb, t in b.calls():
        if t.get("f") and t["f"]["name"] == "is_empty" and not b.is_cleanup(bb) and b.dominates(sb, bb) and ss[0] in b.reachable(start=bb):
            return True
    return False


def rules_c24(ctx):
    c = crate()
    tcs = tick_closures(c)
    R = ctx.rule("C24.gen", "generated tick closures (corpus): exactly one __end_tick() on every completing path and outside any loop, after the schedule test and the tick-level swaps; "
                 "the schedule test is a real test exactly when a non-lazy deferral exists", floor=8)
    ctx.extra["corpus_programs"] = sorted(tcs)
    for prog, b in sorted(tcs.items()):
        key = "corpus|" + prog
        ets = call_blocks(b, "__end_tick")
        sb, ss = schedule_switch(b)
        swaps = call_blocks(b, "swap")
        ctx.inst(R, key, sites=len(ets) + len(ss) + len(swaps), sample={"end_tick_blocks": ets, "schedule_switch": sb, "swap_blocks": swaps, "blocks": b.n})
        if len(ets) != 1:
            ctx.violation(R, key + "|end-tick-count", "the generated tick closure calls __end_tick() %d times" % len(ets), b.loc())
            continue
        e = ets[0]
        if b.in_cycle(e):
            ctx.violation(R, key + "|end-tick-in-loop", "__end_tick() sits inside a loop of the generated tick closure", b.loc(e))
        rets = set(b.returns())
        ok, _ = b.all_paths_pass({e}, rets)
        if not ok:
            ctx.violation(R, key + "|end-tick-skipped", "a completing path of the generated tick closure skips __end_tick(): the tick counter would not advance", b.loc(e))
        if sb is None:
            ctx.violation(R, key + "|no-schedule-test", "the generated tick closure has no schedule_subgraph(true) test", b.loc())
        else:
            if not b.dominates(sb, e):
                ctx.violation(R, key + "|schedule-after-end", "the schedule test does not precede __end_tick()", b.loc(sb))
            for w in swaps:
                if not b.in_cycle(w) and not (b.dominates(sb, w) and b.dominates(w, e)):
                    ctx.violation(R, key + "|swap-order", "a tick-level buffer swap is not between the schedule test and __end_tick(): the test would read the wrong buffer / the swap would be skipped", b.loc(w))
    # laziness pair
    for prog, want in (("p_defer_tick", True), ("p_defer_tick_lazy", False)):
        b = tcs.get(prog)
        if b is None:
            ctx.anchor_missing(R, "corpus program " + prog)
            continue
        sb, ss = schedule_switch(b)
        got = sb is not None and cond_uses_is_empty(b, sb)
        ctx.inst(R, "corpus|%s|schedule-condition" % prog, sample={"tests_a_buffer": got})
        if got != want:
            ctx.violation(R, "corpus|%s|schedule-condition" % prog, "%s: the schedule test %s a deferred buffer (expected: %s)" % (
                prog, "inspects" if got else "does not inspect", "non-lazy defer_tick must start the next tick, defer_tick_lazy must not"), b.loc(sb) if sb is not None else b.loc())
        if not call_blocks(b, "swap"):
            ctx.violation(R, "corpus|%s|no-swap" % prog, "%s: no double-buffer swap is generated for the deferred handoff (deferred data would never be delivered)" % prog, b.loc())


def rules_c21(ctx):
    c = crate()
    tcs = tick_closures(c)
    R = ctx.rule("C21.gen", "generated code (corpus pairs): the 'tick variant resets operator state between the last subgraph and __end_tick(), the 'static variant does not", floor=3)
    for tick, static, nstate in (("p_fold_tick", "p_fold_static", 1), ("p_unique_tick", "p_unique_static", 1), ("p_join_tick_tick", "p_join_static_static", 2),
                                 ("p_zip_tick_tick", "p_zip_static_static", 2), ("p_anti_join", "p_anti_join_static", 1)):
        bt, bs = tcs.get(tick), tcs.get(static)
        if bt is None or bs is None:
            ctx.anchor_missing(R, "corpus pair %s / %s" % (tick, static))
            continue
        res = {}
        for nm, b in ((tick, bt), (static, bs)):
            e = call_blocks(b, "__end_tick")
            sb, _ss = schedule_switch(b)
            if len(e) != 1 or sb is None:
                res[nm] = None
                continue
            region = set(x for x in range(b.n) if not b.is_cleanup(x) and b.dominates(sb, x) and x in _reaching(b, e[0]) and x != sb)
            # writes that come after the __end_tick call inside its own block (the work_done take) are in later blocks
            res[nm] = [w for w in upvar_state_writes(b, region) if "swap" not in w[1]]
        ctx.inst(R, "corpus|%s/%s" % (tick, static), sample={"tick_end_writes": {k: v for k, v in res.items()}})
        if res[tick] is None or res[static] is None:
            ctx.violation(R, "corpus|%s|shape" % tick, "cannot locate the tick-end region of the generated closure (fail closed)")
            continue
        import re as _re
        fields = set(_re.sub(r".*(_1\.\d+).*", r"\1", w[1]) for w in res[tick])
        if res[tick] and len(fields) < nstate:
            ctx.violation(R, "corpus|%s|reset-targets" % tick, "%s: the operator has %d pieces of 'tick state but the end-of-tick code re-initialises only %s" % (tick, nstate, sorted(fields)), bt.loc())
        if not res[tick]:
            ctx.violation(R, "corpus|%s|no-reset" % tick, "%s: no operator state is re-initialised at the end of the tick although the operator has 'tick persistence" % tick, bt.loc())
        if res[static]:
            ctx.violation(R, "corpus|%s|static-reset" % static, "%s: operator state is written at the end of the tick although the operator has 'static persistence: %s" % (static, res[static]), bs.loc())
    rules_c21_mixed(ctx, R)


def tick_end_fields(b):
    e = call_blocks(b, "__end_tick")
    sb, _ss = schedule_switch(b)
    if len(e) != 1 or sb is None:
        return None
    import re as _re
    region = set(x for x in range(b.n) if not b.is_cleanup(x) and b.dominates(sb, x) and x in _reaching(b, e[0]) and x != sb)
    return set(_re.sub(r".*(_1\.\d+).*", r"\1", w[1]) for w in upvar_state_writes(b, region) if "swap" not in w[1])


def rules_c21_mixed(ctx, R):
    """operators with one persistence argument per input: the mixed variants reset exactly the 'tick side — <'static,'tick> and <'tick,'static> reset
    different, non-empty sets of state, whose union is what <'tick,'tick> resets"""
    tcs = tick_closures(crate())
    for op in ("zip", "join"):
        names = {k: "p_%s_%s" % (op, k) for k in ("tick_tick", "static_tick", "tick_static", "static_static")}
        fs = {}
        for k, n in names.items():
            b = tcs.get(n)
            fs[k] = tick_end_fields(b) if b is not None else None
        key = "corpus|%s|mixed-persistence" % op
        ctx.inst(R, key, sample={k: (sorted(v) if v is not None else None) for k, v in fs.items()})
        if any(v is None for v in fs.values()):
            ctx.anchor_missing(R, "corpus programs p_%s_* (mixed persistence)" % op)
            continue
        st, ts, tt = fs["static_tick"], fs["tick_static"], fs["tick_tick"]
        # positions of captured state differ between programs only by declaration order, which is the same in all four variants
        if not st or not ts or st == ts or (st & ts) or (st | ts) != tt or fs["static_static"]:
            ctx.violation(R, key + "|wrong-side", "%s: end-of-tick resets per variant are <'static,'tick>=%s <'tick,'static>=%s <'tick,'tick>=%s <'static,'static>=%s — each input's state must follow its own "
                          "persistence argument" % (op, sorted(st), sorted(ts), sorted(tt), sorted(fs["static_static"])), tcs[names["static_tick"]].loc())


def _reaching(b, target):
    """blocks from which `target` is reachable"""
    out = set()
    work = [target]
    while work:
        x = work.pop()
        if x in out:
            continue
        out.add(x)
        work.extend(p for p in b.preds(x) if not b.is_cleanup(p))
    return out


def rules_c23(ctx):
    c = crate()
    tcs = tick_closures(c)
    R = ctx.rule("C23.gen", "generated code (corpus): every subgraph future is awaited to completion before the next subgraph's block and before the end-of-tick code", floor=5)
    for prog, b in sorted(tcs.items()):
        insts = call_blocks(b, "new")
        insts = [bb for bb in insts if "InstrumentSubgraph" in (b.term(bb)["f"].get("impl_self") or b.term(bb)["f"]["def"])]
        e = call_blocks(b, "__end_tick")
        key = "corpus|" + prog
        ctx.inst(R, key, sites=len(insts), sample={"subgraph_blocks": insts})
        if not insts:
            ctx.violation(R, key + "|no-subgraph", "no instrumented subgraph future in the generated tick closure", b.loc())
            continue
        # each instrumented future is polled (awaited): a poll call on it is reachable and dominates the next subgraph / the end of tick
        for i, bb in enumerate(insts):
            nxt = insts[i + 1] if i + 1 < len(insts) else (e[0] if e else None)
            polls = [pb for pb, t in b.calls() if t.get("f") and t["f"]["name"] == "poll" and b.dominates(bb, pb) and not b.is_cleanup(pb)]
            if nxt is not None and not b.in_cycle(bb) and not any(b.dominates(pb, nxt) for pb in polls):
                ctx.violation(R, key + "|not-awaited#%d" % i, "a subgraph future is created but not awaited before the next subgraph / the end of the tick", b.loc(bb))
