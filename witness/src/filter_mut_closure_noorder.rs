//! property: C28
//! expect: E0594
//! gate: a closure that mutates captured state is order sensitive on a NoOrder stream
use hydro_lang::live_collections::stream::NoOrder;
use hydro_lang::prelude::*;
struct P1 {}
fn test<'a>(p1: &Process<'a, P1>) {
    let my_count = p1.source_iter(q!(0..5i32)).fold(q!(|| 0i32), q!(|acc: &mut i32, x| *acc += x));
    let count_mut = my_count.by_mut();
    let s = p1.source_iter(q!(1..=3i32));
    /*BAD*/ let _ = s.weaken_ordering::<NoOrder>().filter(q!(|x| { *count_mut += *x; true }));
    /*GOOD*/ let _ = s.filter(q!(|x| { *count_mut += *x; true }));
}
fn main() {}
