//! property: C28
//! expect: E0277
//! gate: an Unbounded stream cannot be re-typed Bounded by safe code (repaired defect, DESIGN 6.5)
use hydro_lang::prelude::*;
struct P1 {}
fn test<'a>(p1: &Process<'a, P1>) {
    let bounded = p1.source_iter(q!(0..10));
    let unbounded: Stream<_, _, Unbounded> = p1.source_iter(q!(0..10)).into();
    /*BAD*/ let _ = (unbounded.weaken_boundedness::<Bounded>(), bounded);
    /*GOOD*/ let _ = (bounded.weaken_boundedness::<Unbounded>(), unbounded);
}
fn main() {}
