//! property: C32
//! expect: E0277
//! gate: first() internally assumes exactly-once; it was reviewed only for totally ordered inputs
use hydro_lang::live_collections::stream::NoOrder;
use hydro_lang::prelude::*;
struct P1 {}
fn test<'a>(p1: &Process<'a, P1>) {
    let s = p1.source_iter(q!(0..10));
    /*BAD*/ let _ = s.weaken_ordering::<NoOrder>().first();
    /*GOOD*/ let _ = s.first();
}
fn main() {}
