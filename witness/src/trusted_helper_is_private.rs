//! property: C32
//! expect: E0624
//! gate: the re-typing helpers are crate-private
use hydro_lang::live_collections::stream::{NoOrder, TotalOrder};
use hydro_lang::prelude::*;
struct P1 {}
fn test<'a>(p1: &Process<'a, P1>) {
    let s = p1.source_iter(q!(0..10)).weaken_ordering::<NoOrder>();
    /*BAD*/ let _ = s.assume_ordering_trusted::<TotalOrder>(nondet!(/** witness */));
    /*GOOD*/ let _ = s.assume_ordering::<TotalOrder>(nondet!(/** witness */));
}
fn main() {}
