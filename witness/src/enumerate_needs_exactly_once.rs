//! property: C29
//! expect: E0277
//! gate: enumerate is only available on an ExactlyOnce stream
use hydro_lang::live_collections::stream::AtLeastOnce;
use hydro_lang::prelude::*;
struct P1 {}
fn test<'a>(p1: &Process<'a, P1>) {
    let s = p1.source_iter(q!(0..10));
    /*BAD*/ let _ = s.weaken_retries::<AtLeastOnce>().enumerate();
    /*GOOD*/ let _ = s.enumerate();
}
fn main() {}
