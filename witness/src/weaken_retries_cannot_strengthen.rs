//! property: C29
//! expect: E0271
//! gate: weaken_retries accepts only weaker retry guarantees
use hydro_lang::live_collections::stream::{AtLeastOnce, ExactlyOnce};
use hydro_lang::prelude::*;
struct P1 {}
fn test<'a>(p1: &Process<'a, P1>) {
    let s = p1.source_iter(q!(0..10)).weaken_retries::<AtLeastOnce>();
    /*BAD*/ let _ = s.weaken_retries::<ExactlyOnce>();
    /*GOOD*/ let _ = s.weaken_retries::<AtLeastOnce>();
}
fn main() {}
