//! property: C32
//! expect: E0599
//! gate: count() is only defined for ExactlyOnce streams (its order assumption was reviewed under that header)
use hydro_lang::live_collections::stream::AtLeastOnce;
use hydro_lang::prelude::*;
struct P1 {}
fn test<'a>(p1: &Process<'a, P1>) {
    let s = p1.source_iter(q!(0..10));
    /*BAD*/ let _ = s.weaken_retries::<AtLeastOnce>().count();
    /*GOOD*/ let _ = s.count();
}
fn main() {}
