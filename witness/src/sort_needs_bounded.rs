//! property: C30
//! expect: E0277
//! gate: sort must see a bounded input
use hydro_lang::prelude::*;
struct P1 {}
fn test<'a>(p1: &Process<'a, P1>) {
    let bounded = p1.source_iter(q!(0..10));
    let unbounded: Stream<_, _, Unbounded> = p1.source_iter(q!(0..10)).into();
    /*BAD*/ let _ = (unbounded.sort(), bounded);
    /*GOOD*/ let _ = (bounded.sort(), unbounded);
}
fn main() {}
