//! property: C28
//! expect: E0277
//! gate: an aggregation over an AtLeastOnce stream needs an idempotence proof
use hydro_lang::live_collections::stream::AtLeastOnce;
use hydro_lang::prelude::*;
struct P1 {}
fn test<'a>(p1: &Process<'a, P1>) {
    let s = p1.source_iter(q!(0..10)).weaken_retries::<AtLeastOnce>();
    /*BAD*/ let _ = s.fold(q!(|| 0), q!(|acc, x| *acc = (*acc).max(x)));
    /*GOOD*/ let _ = s.fold(q!(|| 0), q!(|acc, x| *acc = (*acc).max(x), idempotent = manual_proof!(/** max */)));
}
fn main() {}
