//! property: C29
//! expect: E0277
//! gate: scan is only available on a TotalOrder stream
use hydro_lang::live_collections::stream::NoOrder;
use hydro_lang::prelude::*;
struct P1 {}
fn test<'a>(p1: &Process<'a, P1>) {
    let s = p1.source_iter(q!(0..10));
    /*BAD*/ let _ = s.weaken_ordering::<NoOrder>().scan(q!(|| 0), q!(|acc, x| { *acc += x; Some(*acc) }));
    /*GOOD*/ let _ = s.scan(q!(|| 0), q!(|acc, x| { *acc += x; Some(*acc) }));
}
fn main() {}
