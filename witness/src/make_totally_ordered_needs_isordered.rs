//! property: C29
//! expect: E0277
//! gate: make_totally_ordered is a no-op cast, only for orderings that are already total
use hydro_lang::live_collections::stream::NoOrder;
use hydro_lang::prelude::*;
struct P1 {}
fn test<'a>(p1: &Process<'a, P1>) {
    let s = p1.source_iter(q!(0..10));
    /*BAD*/ let _ = s.weaken_ordering::<NoOrder>().make_totally_ordered();
    /*GOOD*/ let _ = s.make_totally_ordered();
}
fn main() {}
