//! property: C33
//! expect: E0308
//! gate: a keyed fold is typed MonotonicValue only with a monotonicity proof
use hydro_lang::live_collections::keyed_singleton::MonotonicValue;
use hydro_lang::prelude::*;
struct P1 {}
fn test<'a>(p1: &Process<'a, P1>) {
    let ks: KeyedStream<_, _, _> = p1.source_iter(q!([(0, 1), (1, 2)])).into_keyed().into();
    /*BAD*/ let _: KeyedSingleton<_, _, _, MonotonicValue> = ks.fold(q!(|| 0), q!(|sum, v| *sum += v));
    /*GOOD*/ let _: KeyedSingleton<_, _, _, MonotonicValue> = ks.fold(q!(|| 0), q!(|sum, v| *sum += v, monotone = manual_proof!(/** witness */)));
}
fn main() {}
