//! property: C28
//! expect: E0061
//! gate: batching exposes tick boundaries and takes a NonDet guard
use hydro_lang::prelude::*;
struct P1 {}
fn test<'a>(p1: &Process<'a, P1>) {
    let s: Stream<_, _> = p1.source_iter(q!(0..10)).into();
    let tick = p1.tick();
    /*BAD*/ let _ = s.batch(&tick);
    /*GOOD*/ let _ = s.batch(&tick, nondet!(/** witness */));
}
fn main() {}
