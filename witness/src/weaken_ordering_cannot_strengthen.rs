//! property: C29
//! expect: E0271
//! gate: weaken_ordering accepts only weaker orderings
use hydro_lang::live_collections::stream::{NoOrder, TotalOrder};
use hydro_lang::prelude::*;
struct P1 {}
fn test<'a>(p1: &Process<'a, P1>) {
    let s = p1.source_iter(q!(0..10)).weaken_ordering::<NoOrder>();
    /*BAD*/ let _ = s.weaken_ordering::<TotalOrder>();
    /*GOOD*/ let _ = s.weaken_ordering::<NoOrder>();
}
fn main() {}
