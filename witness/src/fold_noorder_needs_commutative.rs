//! property: C28
//! expect: E0277
//! gate: an aggregation over a NoOrder stream needs a commutativity proof
use hydro_lang::live_collections::stream::NoOrder;
use hydro_lang::prelude::*;
struct P1 {}
fn test<'a>(p1: &Process<'a, P1>) {
    let s = p1.source_iter(q!(0..10)).weaken_ordering::<NoOrder>();
    /*BAD*/ let _ = s.fold(q!(|| 0), q!(|acc, x| *acc += x));
    /*GOOD*/ let _ = s.fold(q!(|| 0), q!(|acc, x| *acc += x, commutative = manual_proof!(/** addition */)));
}
fn main() {}
