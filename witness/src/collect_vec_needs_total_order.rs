//! property: C29
//! expect: E0277
//! gate: collect_vec exposes the order of elements
use hydro_lang::live_collections::stream::NoOrder;
use hydro_lang::prelude::*;
struct P1 {}
fn test<'a>(p1: &Process<'a, P1>) {
    let s = p1.source_iter(q!(0..10));
    /*BAD*/ let _ = s.weaken_ordering::<NoOrder>().collect_vec();
    /*GOOD*/ let _ = s.collect_vec();
}
fn main() {}
