//! E4 corpus: small `dfir_syntax!` programs that are *compiled, never run*. The mirfacts driver extracts the MIR of the generated
//! tick closures (with the repository's current dfir_lang doing the expansion); rules/corpus.py checks structural facts on them.
//! Naming: `p_<feature>_<variant>`; paired programs differ only in the persistence / deferral variant.
#![allow(unused, clippy::all)]
use dfir_rs::dfir_syntax;
use dfir_rs::scheduled::context::Dfir;

pub fn p_basic() -> impl Sized {
    dfir_syntax! {
        source_iter(0..3) -> map(|x| x + 1) -> for_each(|x| drop(x));
    }
}

pub fn p_fold_tick() -> impl Sized {
    dfir_syntax! {
        source_iter([1u32, 2, 3]) -> fold::<'tick>(|| 0u32, |a: &mut u32, x: u32| *a += x) -> for_each(|x| drop(x));
    }
}

pub fn p_fold_static() -> impl Sized {
    dfir_syntax! {
        source_iter([1u32, 2, 3]) -> fold::<'static>(|| 0u32, |a: &mut u32, x: u32| *a += x) -> for_each(|x| drop(x));
    }
}

pub fn p_unique_tick() -> impl Sized {
    dfir_syntax! {
        source_iter([1u32, 2, 2]) -> unique::<'tick>() -> for_each(|x| drop(x));
    }
}

pub fn p_unique_static() -> impl Sized {
    dfir_syntax! {
        source_iter([1u32, 2, 2]) -> unique::<'static>() -> for_each(|x| drop(x));
    }
}

pub fn p_join_tick_tick() -> impl Sized {
    dfir_syntax! {
        j = join::<'tick, 'tick>() -> for_each(|x: (u32, (u32, u32))| drop(x));
        source_iter([(1u32, 1u32)]) -> [0]j;
        source_iter([(1u32, 2u32)]) -> [1]j;
    }
}

pub fn p_join_static_static() -> impl Sized {
    dfir_syntax! {
        j = join::<'static, 'static>() -> for_each(|x: (u32, (u32, u32))| drop(x));
        source_iter([(1u32, 1u32)]) -> [0]j;
        source_iter([(1u32, 2u32)]) -> [1]j;
    }
}

pub fn p_defer_tick() -> impl Sized {
    dfir_syntax! {
        source_iter([0u32]) -> ut;
        ut = union() -> tee();
        ut -> map(|n| n + 1) -> filter(|&n| n < 10) -> defer_tick() -> ut;
        ut -> for_each(|v| drop(v));
    }
}

pub fn p_defer_tick_lazy() -> impl Sized {
    dfir_syntax! {
        source_iter([0u32]) -> ut;
        ut = union() -> tee();
        ut -> map(|n| n + 1) -> filter(|&n| n < 10) -> defer_tick_lazy() -> ut;
        ut -> for_each(|v| drop(v));
    }
}

pub fn p_two_subgraphs() -> impl Sized {
    dfir_syntax! {
        source_iter([3u32, 1, 2]) -> sort() -> map(|x| x + 1) -> fold::<'tick>(|| 0u32, |a: &mut u32, x: u32| *a += x) -> for_each(|x| drop(x));
    }
}

pub fn p_anti_join() -> impl Sized {
    dfir_syntax! {
        aj = anti_join::<'tick, 'tick>() -> for_each(|x: (u32, u32)| drop(x));
        source_iter([(1u32, 1u32), (2, 2)]) -> [pos]aj;
        source_iter([1u32]) -> [neg]aj;
    }
}

pub fn p_zip_tick_tick() -> impl Sized {
    dfir_syntax! {
        z = zip::<'tick, 'tick>() -> for_each(|x: (u32, u32)| drop(x));
        source_iter([1u32, 2]) -> [0]z;
        source_iter([3u32]) -> [1]z;
    }
}

pub fn p_zip_static_static() -> impl Sized {
    dfir_syntax! {
        z = zip::<'static, 'static>() -> for_each(|x: (u32, u32)| drop(x));
        source_iter([1u32, 2]) -> [0]z;
        source_iter([3u32]) -> [1]z;
    }
}

pub fn p_anti_join_static() -> impl Sized {
    dfir_syntax! {
        aj = anti_join::<'static, 'static>() -> for_each(|x: (u32, u32)| drop(x));
        source_iter([(1u32, 1u32), (2, 2)]) -> [pos]aj;
        source_iter([1u32]) -> [neg]aj;
    }
}

pub fn p_zip_static_tick() -> impl Sized {
    dfir_syntax! {
        z = zip::<'static, 'tick>() -> for_each(|x: (u32, u32)| drop(x));
        source_iter([1u32, 2]) -> [0]z;
        source_iter([3u32]) -> [1]z;
    }
}

pub fn p_zip_tick_static() -> impl Sized {
    dfir_syntax! {
        z = zip::<'tick, 'static>() -> for_each(|x: (u32, u32)| drop(x));
        source_iter([1u32, 2]) -> [0]z;
        source_iter([3u32]) -> [1]z;
    }
}

pub fn p_join_static_tick() -> impl Sized {
    dfir_syntax! {
        j = join::<'static, 'tick>() -> for_each(|x: (u32, (u32, u32))| drop(x));
        source_iter([(1u32, 1u32)]) -> [0]j;
        source_iter([(1u32, 2u32)]) -> [1]j;
    }
}

pub fn p_join_tick_static() -> impl Sized {
    dfir_syntax! {
        j = join::<'tick, 'static>() -> for_each(|x: (u32, (u32, u32))| drop(x));
        source_iter([(1u32, 1u32)]) -> [0]j;
        source_iter([(1u32, 2u32)]) -> [1]j;
    }
}
