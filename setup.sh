#!/bin/sh
# Builds the framework offline from files on disk. Facts and target dirs live under /verif/.work (git-ignored).
set -e
cd "$(dirname "$0")"
export CARGO_NET_OFFLINE=true
mkdir -p .work/facts .work/replay evidence
(cd engine/mirfacts && cargo build --release --offline)
if [ -d engine/synscan ]; then (cd engine/synscan && cargo build --release --offline); fi
echo "setup ok"
