#!/usr/bin/env python3
"""debug helper: ./dump.py <crate> <regex>  -- pretty-print matching bodies"""
import sys
sys.path.insert(0, "rules")
import mir
c = mir.load_crate(sys.argv[1])
for b in c.find_bodies(sys.argv[2]):
    print(b.pretty()); print()
