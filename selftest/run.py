#!/usr/bin/env python3
"""Mutation self-test: applies each one-edit mutant to a scratch git worktree of /repo (outside /repo and /verif, with its own facts /
target directory; removed with --clean), runs the named check against that copy (VERIF_REPO / VERIF_WORK) and expects it to fire with
the named key fragment; also expects silence on the pristine copy.

usage: selftest/run.py [--clean] [name-substring | property ...]"""
import os, subprocess, sys, time
HERE = os.path.dirname(os.path.abspath(__file__))
VERIF = os.path.dirname(HERE)
sys.path.insert(0, HERE)
from mutants import MUTANTS
from mutants_s3 import MUTANTS_S3
MUTANTS = MUTANTS + MUTANTS_S3
REPO = os.environ.get("SELFTEST_REPO", "/tmp/verif-selftest/repo")
WORK = os.environ.get("SELFTEST_WORK", "/tmp/verif-selftest/work")


def sh(cmd, cwd=VERIF):
    env = dict(os.environ, VERIF_REPO=REPO, VERIF_WORK=WORK)
    return subprocess.run(cmd, cwd=cwd, shell=True, capture_output=True, text=True, env=env)


def main():
    sel = [a for a in sys.argv[1:] if not a.startswith("--")]
    if "--clean" in sys.argv:
        subprocess.run("git -C /repo worktree remove --force %s; rm -rf %s" % (REPO, os.path.dirname(WORK)), shell=True)
        return 0
    if not os.path.isdir(REPO):
        os.makedirs(os.path.dirname(REPO), exist_ok=True)
        subprocess.run("git -C /repo worktree add --detach %s HEAD" % REPO, shell=True, capture_output=True)
    else:
        subprocess.run("git -C %s checkout -q --detach $(git -C /repo rev-parse HEAD) && git -C %s checkout -q -- ." % (REPO, REPO), shell=True)
    os.makedirs(os.path.join(WORK, "facts"), exist_ok=True)
    st = sh("git status --porcelain", REPO).stdout.strip()
    if st:
        print("refusing: /repo has uncommitted changes:\n" + st)
        return 2
    results = []
    for m in MUTANTS:
        if sel and not any(s in m["name"] or s == m["prop"] for s in sel):
            continue
        path = os.path.join(REPO, m["file"])
        src = open(path).read()
        if m["old"] not in src:
            results.append((m["name"], "STALE (anchor text not found)"))
            continue
        try:
            open(path, "w").write(src.replace(m["old"], m["new"], 1))
            t0 = time.time()
            r = sh("./check %s --tier quick" % m["prop"])
            dt = time.time() - t0
            fired = r.returncode == 1 and "VIOLATION property=%s" % m["prop"] in r.stdout
            named = m["expect"] in r.stdout
            if r.returncode == 2:
                verdict = "INFRA (exit 2): " + r.stdout[-300:].replace("\n", " | ")
            elif fired and named:
                verdict = "caught"
            elif fired:
                verdict = "fired but not with expected key %r" % m["expect"]
            else:
                verdict = "MISSED"
            results.append((m["name"], "%s (%.0fs)" % (verdict, dt)))
        finally:
            open(path, "w").write(src)
        print("%-55s %s" % results[-1], flush=True)
    sh("git checkout -- .", REPO)
    props = sorted(set(m["prop"] for m in MUTANTS if not sel or any(s in m["name"] or s == m["prop"] for s in sel)))
    for p in props:
        r = sh("./check %s --tier quick" % p)
        print("%-55s %s" % ("pristine " + p, "silent" if r.returncode == 0 else "NOT SILENT exit=%d" % r.returncode), flush=True)
    bad = [r for r in results if not r[1].startswith("caught")]
    print("%d mutants, %d caught" % (len(results), len(results) - len(bad)))
    return 1 if bad else 0


if __name__ == "__main__":
    sys.exit(main())
