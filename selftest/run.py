#!/usr/bin/env python3
"""Mutation self-test: applies each one-edit mutant to /repo's working tree (in place, reverted immediately),
runs the named check and expects it to fire with the named key fragment; also expects silence on the pristine tree.

usage: selftest/run.py [name-substring ...]      (never run while a test suite is running on /repo itself)"""
import os, subprocess, sys, time
HERE = os.path.dirname(os.path.abspath(__file__))
VERIF = os.path.dirname(HERE)
sys.path.insert(0, HERE)
from mutants import MUTANTS
REPO = "/repo"


def sh(cmd, cwd=VERIF):
    return subprocess.run(cmd, cwd=cwd, shell=True, capture_output=True, text=True)


def main():
    sel = sys.argv[1:]
    st = sh("git status --porcelain", REPO).stdout.strip()
    if st:
        print("refusing: /repo has uncommitted changes:\n" + st)
        return 2
    results = []
    for m in MUTANTS:
        if sel and not any(s in m["name"] or s == m["prop"] for s in sel):
            continue
        path = os.path.join(REPO, m["file"])
        src = open(path).read()
        if m["old"] not in src:
            results.append((m["name"], "STALE (anchor text not found)"))
            continue
        try:
            open(path, "w").write(src.replace(m["old"], m["new"], 1))
            t0 = time.time()
            r = sh("./check %s --tier quick" % m["prop"])
            dt = time.time() - t0
            fired = r.returncode == 1 and "VIOLATION property=%s" % m["prop"] in r.stdout
            named = m["expect"] in r.stdout
            if r.returncode == 2:
                verdict = "INFRA (exit 2): " + r.stdout[-300:].replace("\n", " | ")
            elif fired and named:
                verdict = "caught"
            elif fired:
                verdict = "fired but not with expected key %r" % m["expect"]
            else:
                verdict = "MISSED"
            results.append((m["name"], "%s (%.0fs)" % (verdict, dt)))
        finally:
            open(path, "w").write(src)
        print("%-55s %s" % results[-1], flush=True)
    sh("git checkout -- .", REPO)
    props = sorted(set(m["prop"] for m in MUTANTS if not sel or any(s in m["name"] or s == m["prop"] for s in sel)))
    for p in props:
        r = sh("./check %s --tier quick" % p)
        print("%-55s %s" % ("pristine " + p, "silent" if r.returncode == 0 else "NOT SILENT exit=%d" % r.returncode), flush=True)
    bad = [r for r in results if not r[1].startswith("caught")]
    print("%d mutants, %d caught" % (len(results), len(results) - len(bad)))
    return 1 if bad else 0


if __name__ == "__main__":
    sys.exit(main())
