#!/usr/bin/env python3
"""Behaviour-preserving refactors of /repo (applied to the scratch worktree /tmp/verif-selftest/repo, never to /repo): the named check must stay silent (exit 0).
Run after selftest/run.py has created the scratch worktree."""
import subprocess,os,sys
REPO='/tmp/verif-selftest/repo'
env=dict(os.environ, VERIF_REPO=REPO, VERIF_WORK='/tmp/verif-selftest/work')
subprocess.run('git checkout -q -- .',shell=True,cwd=REPO)
T=[
 ("b1-rename-key-var","C28","hydro_lang/src/compile/ir/mod.rs",[("                                                        if let Some((k, v)) = opt_payload {","                                                        if let Some((key, v)) = opt_payload {"),("                                                                if k < curr_watermark {","                                                                if key < curr_watermark {"),("                                                            match map.entry(k) {","                                                            match map.entry(key) {")]),
 ("b3-must-release-operands-swapped","C37","hydro_lang/src/sim/runtime.rs",[("            let must_release = force_nontrivial && out.is_empty();\n            if !must_release && produce().generate(driver).unwrap() {\n                break;\n            }\n\n            let idx = (min_index..current_input.len())","            let must_release = out.is_empty() && force_nontrivial;\n            if !must_release && produce().generate(driver).unwrap() {\n                break;\n            }\n\n            let idx = (min_index..current_input.len())")]),
 ("b4-generator-assign-none","C29","hydro_lang/src/live_collections/keyed_stream/mod.rs",[("                        Generate::Return(out) => {\n                            let _ = existing_state.take(); // TODO(shadaj): garbage collect with termination markers","                        Generate::Return(out) => {\n                            *existing_state = None;"),("                        Generate::Break => {\n                            let _ = existing_state.take(); // TODO(shadaj): garbage collect with termination markers","                        Generate::Break => {\n                            *existing_state = None;")]),
 ("b5-release-loop-while-let","C36","hydro_lang/src/sim/runtime.rs",[("            for item in to_release {\n                self.output.try_send(item).unwrap();\n            }\n        } else {\n            panic!(\"No decision to release\");\n        }\n    }\n}\n\nimpl<T> SimHook for StreamHook<T, NoOrder>","            let mut it = to_release.into_iter();\n            while let Some(item) = it.next() {\n                self.output.try_send(item).unwrap();\n            }\n        } else {\n            panic!(\"No decision to release\");\n        }\n    }\n}\n\nimpl<T> SimHook for StreamHook<T, NoOrder>")]),

 ("b7-tickdrain-explicit-returns","C13","dfir_pipes/src/pull/symmetric_hash_join.rs",[("        loop {\n            return match pull.as_mut().pull(ctx) {\n                PullStep::Ready((k, v), _meta) => {\n                    state.build(k, Cow::Owned(v));\n                    continue;\n                }\n                PullStep::Pending(_) => std::task::Poll::Pending,\n                PullStep::Ended(_) => std::task::Poll::Ready(()),\n            };\n        }","        loop {\n            match pull.as_mut().pull(ctx) {\n                PullStep::Ready((k, v), _meta) => {\n                    state.build(k, Cow::Owned(v));\n                }\n                PullStep::Pending(_) => return std::task::Poll::Pending,\n                PullStep::Ended(_) => return std::task::Poll::Ready(()),\n            }\n        }")]),
 ("b8-initial-gate-in-local","C30","hydro_lang/src/live_collections/optional.rs",[("        from_previous_tick.or(initial.filter_if(location.optional_first_tick(q!(())).is_some()))","        let first_tick = location.optional_first_tick(q!(())).is_some();\n        let gated = initial.filter_if(first_tick);\n        from_previous_tick.or(gated)")]),
 ("b9-last-released-via-local","C36","hydro_lang/src/sim/runtime.rs",[("            self.last_released = Some(to_release.clone());","            let snap = to_release.clone();\n            self.last_released = Some(snap);")]),

 ("b10-window-lookups-untupled","C17","dfir_lang/src/graph/graph_algorithms.rs",[("            let (u_idx, u_len) = (self.sg_idx[u], self.sg_len[u]);\n            let (v_idx, v_len) = (self.sg_idx[v], self.sg_len[v]);","            let u_idx = self.sg_idx[u];\n            let u_len = self.sg_len[u];\n            let v_len = self.sg_len[v];\n            let v_idx = self.sg_idx[v];")]),
 ("b12-access-counter-named-steps","C41","hydro_lang/src/compile/ir/mod.rs",[("            let c = count.get() + 1;\n            count.set(c + 1);\n            c","            let group = count.get() + 1;\n            let after = group + 1;\n            count.set(after);\n            group")]),

 ("b13-cursor-adjusted-outside-predicate","C15","hydro_deploy/hydro_deploy_integration/src/lib.rs",[("        if any_removed {\n            me.sources.retain(|source| {\n                if source.is_none() && current_index < original_cursor {\n                    me.poll_cursor -= 1;\n                }\n                current_index += 1;\n                source.is_some()\n            });\n        }","        if any_removed {\n            let removed_before = me.sources[..original_cursor].iter().filter(|s| s.is_none()).count();\n            current_index += removed_before;\n            me.sources.retain(Option::is_some);\n            me.poll_cursor -= removed_before;\n        }")]),
]
for name,prop,f,edits in T:
    F=REPO+'/'+f; src=open(F).read(); s=src; ok=True
    for old,new in edits:
        if old not in s: ok=False; print(name,'STALE',old[:50]); break
        s=s.replace(old,new,1)
    if not ok: continue
    open(F,'w').write(s)
    r=subprocess.run('./check %s'%prop,shell=True,cwd='/verif',env=env,capture_output=True,text=True)
    keys=[l.strip() for l in r.stdout.splitlines() if 'key=' in l]
    print(name,'rc',r.returncode,'SILENT (good)' if r.returncode==0 else 'ALARM', keys[:3], r.stdout[-400:] if r.returncode==2 else '')
    open(F,'w').write(src)
