"""One-edit mutants of /repo that compile and (mostly) pass the suite; each names the check and key fragment expected."""
MUTANTS = [
    dict(name="c12-accumulate-drop-ready", prop="C12", expect="C12.ready", file="dfir_pipes/src/push/flat_map.rs",
         old="            ready!(this.next.as_mut().poll_ready(ctx));\n            let meta = *meta;", new="            let meta = *meta;"),
    dict(name="c12-fanout-finalize-one-side", prop="C12", expect="C12.finalize", file="dfir_pipes/src/push/fanout.rs",
         old="""        ready_both!(
            this.push_0
                .poll_finalize(<P0::Ctx<'_> as Context<'_>>::unmerge_self(ctx)),
            this.push_1
                .poll_finalize(<P0::Ctx<'_> as Context<'_>>::unmerge_other(ctx)),
        );
        PushStep::Done""",
         new="""        let _ = &this.push_1;
        match this.push_0.poll_finalize(<P0::Ctx<'_> as Context<'_>>::unmerge_self(ctx)) {
            PushStep::Done => PushStep::Done,
            PushStep::Pending(_) => PushStep::pending(),
        }"""),
    dict(name="c12-statepush-unfix", prop="C12", expect="C12.repoll", file="dfir_pipes/src/push/state_push.rs",
         old="            *this.state_sent = true;\n", new=""),
    dict(name="c12-sendpush-ready-on-pending-finalize", prop="C12", expect="C12.drive", file="dfir_pipes/src/pull/send_push.rs",
         old="            PushStep::Pending(_) => Poll::Pending,\n        }\n    }\n}", new="            PushStep::Pending(_) => Poll::Ready(()),\n        }\n    }\n}"),
    dict(name="c14-unzip-ready-one", prop="C14", expect="C14.ready", file="sinktools/src/unzip.rs",
         old="        ready_both!(this.sink_0.poll_ready(cx)?, this.sink_1.poll_ready(cx)?,);", new="        let _ = &this.sink_1;\n        core::task::ready!(this.sink_0.poll_ready(cx)?);"),
    dict(name="c14-demuxmap-ignore-acc", prop="C14", expect="C14.ready", file="sinktools/src/demux_map.rs",
         old="                ready_both!(poll, Pin::new(sink).poll_ready(cx)?);", new="                let _ = poll;\n                core::task::ready!(Pin::new(sink).poll_ready(cx)?);"),
    dict(name="c14-flatmap-drop-error", prop="C14", expect="C14.err", file="sinktools/src/filter.rs",
         old="            this.sink.start_send(item)\n", new="            let _ = this.sink.start_send(item);\n            Ok(())\n"),
    dict(name="c16-unfix-wake-one", prop="C16", expect="C16.wakepolicy", file="dfir_rs/src/util/unsync/mpsc.rs",
         old="        self.wake_all_senders();\n    }", new="        if let Some(waker) = self.send_wakers.pop() {\n            waker.wake();\n        }\n    }"),
    dict(name="c16-pending-without-waker", prop="C16", expect="C16.pendreg", file="dfir_rs/src/util/unsync/mpsc.rs",
         old="            shared.recv_waker = Some(ctx.waker().clone());\n            Poll::Pending", new="            Poll::Pending"),
    dict(name="c16-push-without-wake", prop="C16", expect="C16.wakeafter", file="dfir_rs/src/util/unsync/mpsc.rs",
         old="                shared.buffer.push_back(item);\n                shared.wake_receiver();", new="                shared.buffer.push_back(item);"),
    dict(name="c27-wake-before-store", prop="C27", expect="C27.wake", file="dfir_rs/src/scheduled/context.rs",
         old="        self.can_start_tick.store(true, Ordering::Relaxed);\n        self.task_waker.wake();", new="        self.task_waker.wake();\n        self.can_start_tick.store(true, Ordering::Relaxed);"),
    dict(name="c27-load-before-register", prop="C27", expect="C27.idle", file="dfir_rs/src/scheduled/context.rs",
         old="""                self.wake_state.task_waker.register(cx.waker());
                if self.wake_state.can_start_tick.load(Ordering::Relaxed) {
                    std::task::Poll::Ready(())
                } else {""", new="""                if self.wake_state.can_start_tick.load(Ordering::Relaxed) {
                    std::task::Poll::Ready(())
                } else {
                    self.wake_state.task_waker.register(cx.waker());"""),
    dict(name="c11-zip-drop-buffered-left", prop="C11", expect="C11.linear", file="dfir_pipes/src/pull/zip.rs",
         old="                *this.buffer = Some(Either::Left((left_item, left_meta)));\n", new="                let _ = left_meta;\n"),
    dict(name="c11-map-manufactured-pending", prop="C11", expect="C11.pendsrc", file="dfir_pipes/src/pull/zip.rs",
         old="| (PullStep::Ended(_), PullStep::Ended(_)) => PullStep::ended(),", new="| (PullStep::Ended(_), PullStep::Ended(_)) => PullStep::pending(),"),
    dict(name="c11-fuse-forget-ended", prop="C11", expect="C11.fuse", file="dfir_pipes/src/pull/fuse.rs",
         old="                    let _ = self.project_replace(Self { prev: None });\n", new=""),
    dict(name="c15-delete-break", prop="C15", expect="C15.linear", file="hydro_deploy/hydro_deploy_integration/src/lib.rs",
         old="                        out = Poll::Ready(Some(data));\n                        break;", new="                        out = Poll::Ready(Some(data));"),
    dict(name="c15-remove-on-pending", prop="C15", expect="C15.end", file="hydro_deploy/hydro_deploy_integration/src/lib.rs",
         old="                    Poll::Pending => {}\n                }\n\n                // Check if we've completed", new="                    Poll::Pending => {\n                        *source = None;\n                        any_removed = true;\n                    }\n                }\n\n                // Check if we've completed"),
    dict(name="c15-tag-constant", prop="C15", expect="C15.tag", file="hydro_deploy/hydro_deploy_integration/src/lib.rs",
         old="Poll::Ready(Some(v.map(|d| (id, d))))", new="Poll::Ready(Some(v.map(|d| (0u32.max(id.min(0)), d))))"),
    dict(name="c27-swap-to-store-in-run-available", prop="C27", expect="C27.clear", file="dfir_rs/src/scheduled/context.rs",
         old="""            self.run_tick_sync();
            let can_start_tick = self
                .wake_state
                .can_start_tick
                .swap(false, Ordering::Relaxed);""", new="""            self.run_tick_sync();
            let can_start_tick = self.wake_state.can_start_tick.load(Ordering::Relaxed);
            self.wake_state.can_start_tick.store(false, Ordering::Relaxed);"""),
    dict(name="c01-derive-short-circuit", prop="C01", expect="C01.allfields", file="lattices_macro/src/lib.rs",
         old="changed |= #root::Merge::merge(&mut self.#field_names, other.#field_names);", new="changed = changed || #root::Merge::merge(&mut self.#field_names, other.#field_names);"),
    dict(name="c01-withtop-drop-nested-merge", prop="C01", expect="C01.used", file="lattices/src/with_top.rs",
         old="            (Some(self_inner), Some(other_inner)) => self_inner.merge(other_inner),\n        }\n    }\n}\n\nimpl<Inner, Other> LatticeFrom",
         new="            (Some(self_inner), Some(other_inner)) => {\n                let _ = (self_inner, other_inner);\n                false\n            }\n        }\n    }\n}\n\nimpl<Inner, Other> LatticeFrom"),
    dict(name="c02-max-swapped-flags", prop="C02", expect="C02.write", file="lattices/src/ord.rs",
         old="        if self.0 < other.0 {\n            self.0 = other.0;\n            true\n        } else {\n            false\n        }", new="        if self.0 < other.0 {\n            self.0 = other.0;\n            false\n        } else {\n            true\n        }"),
    dict(name="c02-vecunion-drop-flag", prop="C02", expect="C02.flagflow", file="lattices/src/vec_union.rs",
         old="            changed |= self_val.merge(other_val);", new="            self_val.merge(other_val);"),
    dict(name="c02-setunion-old-len-late", prop="C02", expect="C02.lenpair", file="lattices/src/set_union.rs",
         old="        let old_len = self.0.len();\n        self.0.extend(other.0);\n        self.0.len() > old_len", new="        self.0.extend(other.0);\n        let old_len = self.0.len();\n        self.0.len() > old_len"),
]
